"""C17 -- case settings survive a write/read cycle and reject what they cannot hold.

Two specifications (spec/settings), each bound to the real code:

  SettingSchema   what one setting admits, stores and writes: the value data model, voluptuous' validation language,
                  Setting._setSchema, the named validators (cycles, cross-section control, tight coupling, flag lists),
                  dump.  (a) SettingSchema_mc: the semantic laws over a synthetic space of schemas/declarations.
                  (b) SettingSchema_cat: TLC evaluates the module over the catalog of the *real* settings (declarations
                  read from the live Setting objects by harness/gen_settings.py) and prints, for every setting and every
                  candidate value, the verdict and the stored / written value; `cs[name] = value` is executed once per case
                  on the real code (verdict, stored value, dump, previous value kept on refusal), and the per-setting data
                  laws (DefaultAdmitted, value round trip) are reported per setting.
  SettingsCase    Settings objects, files and copies as a state machine over abstract values (d, a, b; inputs ca, x).
                  (a) exhaustive TLC runs of the clauses of the statement; (b) spec -> code: every edge of TLC's graph is
                  executed on real Settings objects with every abstract setting name instantiated by a *class* of real
                  settings and the abstract values by concrete values TLC classified in SettingSchema_cat; plus the sweep:
                  the round-trip and refusal paths for every real setting x every admitted / refused value x every style
                  (the nested settings -- cross-section control, tight coupling, cycles, flag lists -- alone in a file with
                  every admitted value, among them the groups whose fields are falsy but set: "", [], 0, 0.0, False);
                  every input form of Settings.modified (plain value, Setting object, new key, case title) and of an
                  assignment (cs[name] = v, Setting.setValue, Setting.value =) is an action or a rotation of one;
                  the registration *order* of a setting-defining plugin and a plugin contributing Option/Default for it is
                  a dimension (both orders per run: declarations against SettingSchema!EffDecl, all cases, sweep, edges);
                  a plugin with a renamed setting arrives in the middle of behaviours (action Register) after texts were read;
                  (c) code -> spec: seeded random histories on real objects, abstracted and validated by SettingsCase_trace.

Expected values always come from TLC (the printed cases and the emitted states); this file builds inputs, runs the real
code, projects and compares.
"""
import collections
import copy
import io
import json
import os
import pickle
import random
import re

from harness import common, tlc, tracecheck
from harness import gen_settings as gs
from harness import replay as rp
from harness.armi_env import armi_ready

MODDIR = os.path.join(common.SPEC, "settings")
ABS_NAMES = ("P", "N", "Q", "R", "V", "Z")
OLD_ABS = {"Po": "P", "No": "N"}            # abstract old names and the abstract setting they belong to
INV_ORDER = ("N", "No", "Po", "Xk", "Zz")   # the order SettingsCase_mc!St lists reader.invalidSettings in
UNKNOWN_NAME = "verifNoSuchSetting"
ADHOC_NAME, ADHOC_VALUE = "zzVerifAdHoc", 7   # the ad-hoc setting Settings.modified creates for a name that is no setting ("Xk")

# Settings whose values are *acted on* while a file is loaded (beyond their schema); valid-value tokens for them are
# restricted to what the action accepts.  This restricts inputs only; see rep.assume in run().
_LEVELS = ("debug", "extra", "info", "important", "prompt", "warning", "error")
HOOK_SAFE = {
    "userPlugins": lambda p: p == [],  # Settings.loadFromInputFile imports what the list names (None: see HOOK_PROBES)
    # Settings.setModuleVerbosities (called by every load) takes each value as a level name or a numeric string
    "moduleVerbosity": lambda p: isinstance(p, dict) and all(isinstance(v, str) and (v in _LEVELS or v.isnumeric()) for v in p.values()),
}


# ============================================================================================================
# part 1: SettingSchema over the catalog -> cases, value library
# ============================================================================================================
class Lib:
    """Everything TLC said about the real settings: cases per setting, laws, rename tables; and the value library the
    instantiations draw from (only values TLC classified)."""

    def __init__(self, prints, entries):
        self.entries = {e["name"]: e for e in entries}
        self.order = [e["name"] for e in entries]
        self.cases = collections.defaultdict(list)
        self.law = {}
        for p in prints:
            if not isinstance(p, dict):
                continue
            if "law" in p:
                self.law[p["law"]] = p
            elif "s" in p:
                self.cases[p["s"]].append(p)
        missing = [n for n in self.order if n not in self.law or not self.cases[n]]
        if missing:
            raise tlc.MachineryError("SettingSchema_cat printed nothing for %s" % missing[:5])
        self.vals, self.noncanon, self.bad, self.default = {}, {}, {}, {}
        for n in self.order:
            self._library(n)

    @staticmethod
    def _lst(x):
        return [] if x in ({}, None) else list(x)

    def _library(self, n):
        e = self.entries[n]
        dflt = gs.plain_of_tag(self.law[n]["effDefault"])       # declaration with the plugins' modifiers merged (EffDecl)
        self.default[n] = dflt
        opts = [gs.plain_of_tag(o) for o in self._lst(self.law[n]["effOptions"])]
        vals, seen, nonc, bad = [], set(), collections.defaultdict(list), []
        for c in self.cases[n]:
            if c["r"] == "bad":
                bad.append(c["raw"])
                continue
            if c["r"] != "ok" or c["rt"] != "holds":
                continue
            stored = gs.plain_of_tag(c["out"])
            key = repr(_canon(stored))
            if _json(c["raw"]) != _json(c["dump"]):
                nonc[key].append(c["raw"])
            if key in seen or gs.same(stored, dflt):
                continue
            if n == "versions" and isinstance(stored, dict) and "armi" in stored:
                continue
            if opts and not any(gs.same(stored, o) for o in opts):
                continue  # options given: only listed values count as a user's valid choice (enforced or not)
            if n in HOOK_SAFE and not HOOK_SAFE[n](stored):
                continue
            if not _yaml_data(stored):
                continue
            seen.add(key)
            vals.append({"stored": stored, "dump_tag": c["dump"], "key": key})
        self.vals[n], self.noncanon[n], self.bad[n] = vals, nonc, bad

    def active_old(self, n):
        return self._lst(self.law[n]["active"])

    def expired_old(self, n):
        return self._lst(self.law[n]["expired"])

    def default_admitted(self, n):
        return bool(self.law[n]["defaultAdmitted"])


def _json(x):
    return json.dumps(x, sort_keys=True)


def _canon(p):
    if isinstance(p, dict):
        return sorted(((repr(k), _canon(v)) for k, v in p.items()))
    if isinstance(p, list):
        return [_canon(x) for x in p]
    return (type(p).__name__, p)


def _yaml_data(p):
    """values a YAML file can hold: the JSON data model with string keys (flags are written as their names)"""
    if isinstance(p, dict):
        return all(isinstance(k, str) and _yaml_data(v) for k, v in p.items())
    if isinstance(p, list):
        return all(_yaml_data(x) for x in p)
    if isinstance(p, tuple):
        return p[0] == "flag"
    return p is None or isinstance(p, (bool, int, float, str))


_CAT_CACHE = {}


def schema_cases(cat=None):
    """catalog -> TLC (SettingSchema_cat) -> Lib   (the catalog must be taken in the main thread: importing armi installs
    a signal handler)"""
    if "lib" in _CAT_CACHE:
        return _CAT_CACHE["lib"], _CAT_CACHE["res"], _CAT_CACHE["skipped"]
    entries, skipped = cat or gs.catalog()
    wd = common.workdir("c17cat")
    fn = os.path.join(wd, "catalog.json")
    with open(fn, "w") as f:
        json.dump({"today": gs.today_int(), "settings": entries}, f)
    res = tlc.run("SettingSchema_cat", "SettingSchema_cat.cfg", MODDIR, workers=1, coverage=False,
                  env={"C17_CATALOG": fn}, timeout=900)
    if res.violation:
        raise tlc.MachineryError("SettingSchema_cat: " + res.violation["trace"][:2000])
    lib = Lib(res.prints, entries)
    _CAT_CACHE.update(lib=lib, res=res, skipped=skipped)
    return lib, res, skipped


def _settings_cls():
    armi_ready()
    gs.ensure_plugin()
    from armi import settings

    return settings.Settings


def _value(cs, name, objs=None):
    """the stored value as plain data, taken from the live Setting object (Settings.__getitem__ refuses some names while
    `cycles` is set; items() does not)"""
    v = gs.plain((objs or dict(cs.items()))[name].value)
    if name == "versions" and isinstance(v, dict):
        v = {k: x for k, x in v.items() if k != "armi"}  # the writer's stamp is not a user value
    return v


def run_cases(rep, lib):
    """`cs[name] = raw` once per printed case, from a known non-default previous value."""
    Settings = _settings_cls()
    gs.register_late(True)      # so that the late plugin's setting has its cases executed too
    cs = Settings()
    gs.register_late(False)
    objs = dict(cs.items())
    n_ok = n_bad = n_unm = 0
    for name in lib.order:
        st = objs[name]
        prev = lib.vals[name][0] if lib.vals[name] else None
        for c in lib.cases[name]:
            if c["r"] == "unm":
                n_unm += 1
                continue
            raw = gs.from_tag(c["raw"])
            st.revertToDefault()
            if prev is not None:
                cs[name] = gs.from_tag(prev["dump_tag"])
            before = _value(cs, name, objs)
            try:
                cs[name] = raw
                got = None
            except Exception as ex:  # noqa: BLE001  a refusal is "an error"; its class is recorded, not judged
                got = type(ex).__name__
            after = _value(cs, name, objs)
            what = None
            if c["r"] == "ok":
                n_ok += 1
                exp = gs.plain_of_tag(c["out"])
                if name == "versions" and isinstance(exp, dict):
                    exp = {k: x for k, x in exp.items() if k != "armi"}
                if got is not None:
                    what = ("accept", "refused with %s, specification stores %r" % (got, exp))
                elif not gs.same(exp, after):
                    what = ("stored", "stored %r, specification stores %r" % (after, exp))
                else:
                    d = gs.plain(st.dump())
                    ed = gs.plain_of_tag(c["dump"])
                    if name == "versions":
                        d = {k: x for k, x in d.items() if k != "armi"} if isinstance(d, dict) else d
                        ed = {k: x for k, x in ed.items() if k != "armi"} if isinstance(ed, dict) else ed
                    if not gs.same(d, ed):
                        what = ("dump", "dump() gives %r, specification writes %r" % (d, ed))
                if c["rt"] == "fails":
                    rep.violation("law:RoundTripValue:%s" % name,
                                  "setting %s: the written form of the stored value of %r is stored differently (TLC, SettingSchema!RoundTripValue)" % (name, raw),
                                  {"direction": "law", "case": c})
            else:
                n_bad += 1
                if got is None:
                    what = ("refuse", "accepted and stored %r, specification refuses" % (after,))
                elif not gs.same(before, after):
                    what = ("keep", "refused with %s but the value changed from %r to %r" % (got, before, after))
            if what:
                rep.violation("case:%s:%s" % (what[0], name), "cs[%r] = %r: %s" % (name, raw, what[1]),
                              {"direction": "case", "setting": name, "case": c})
    return n_ok, n_bad, n_unm


def run_decls(rep, lib, order):
    """The declarations App.getSettings hands out under the current plugin registration order, against SettingSchema!EffDecl
    (TLC's merge of each declaration with the Option/Default modifiers other plugins contribute): default, options, the
    initial value, and that an untouched setting counts as default."""
    Settings = _settings_cls()
    gs.register_late(True)
    cs = Settings()
    gs.register_late(False)
    n = 0
    for name, st in cs.items():
        if name not in lib.law:
            continue
        n += 1
        law = lib.law[name]
        exp_d = gs.plain_of_tag(law["effDefault"])
        exp_o = [gs.plain_of_tag(o) for o in lib._lst(law["effOptions"])]
        what = None
        if not gs.same(exp_d, gs.plain(st.default)):
            what = ("default", "default is %r, the merged declaration has %r" % (gs.plain(st.default), exp_d))
        elif not gs.same(exp_o, [gs.plain(o) for o in (st.options or [])]):
            what = ("options", "options are %r, the merged declaration has %r" % (st.options, exp_o))
        elif lib.default_admitted(name) and not gs.same(exp_d, _value(cs, name)):
            what = ("initial", "a fresh object holds %r, the merged default is %r" % (_value(cs, name), exp_d))
        elif lib.default_admitted(name) and st.offDefault:
            what = ("offdefault", "an untouched setting counts as off-default (value %r, default %r)" % (st.value, st.default))
        if what:
            rep.violation("decl:%s:%s" % (what[0], name), "plugins registered %s: setting %s: %s" % (order, name, what[1]),
                          {"direction": "decl", "order": order, "setting": name})
    return n


def run_laws(rep, lib):
    """Per-setting data laws TLC evaluated over the catalog, confirmed on the real writer/reader."""
    Settings = _settings_cls()
    quarantine = set()
    for name in lib.order:
        if lib.default_admitted(name):
            continue
        quarantine.add(name)
        # confirm on the real code: the default, as the full style writes it, must be readable
        cs = Settings()
        s = io.StringIO()
        cs.writeToYamlStream(s, "full")
        txt = _keep_only(s.getvalue(), {name})
        try:
            Settings().loadFromString(txt)
            confirmed = None
        except Exception as ex:  # noqa: BLE001
            confirmed = "%s: %s" % (type(ex).__name__, str(ex)[:200])
        if confirmed:
            rep.violation("default-rejected:%s" % name,
                          "setting %s: its default, as the full style writes it (%s), is refused when read back [%s]; TLC: SettingSchema!DefaultAdmitted is false for the declaration"
                          % (name, txt.strip().splitlines()[1].strip() if len(txt.strip().splitlines()) > 1 else "?", confirmed),
                          {"direction": "law", "setting": name, "file": txt})
        else:
            rep.violation("case:default:%s" % name, "TLC says the default of %s is not admitted, the real reader accepts it" % name,
                          {"direction": "case", "setting": name})
    return quarantine


def _yaml():
    from ruamel.yaml import YAML

    y = YAML()
    y.default_flow_style = False
    return y


_PARSED = collections.OrderedDict()


def _load_text(txt):
    """the settings mapping of a file, parsed the way any YAML user would (memoised: a text is looked at many times)"""
    from ruamel.yaml import YAML

    hit = _PARSED.get(txt)
    if hit is None:
        tree = YAML(typ="safe").load(txt)
        hit = tree.get("settings", {}) if isinstance(tree, dict) else {}
        _PARSED[txt] = hit
        if len(_PARSED) > 64:
            _PARSED.popitem(last=False)
    return dict(hit)


def _dump_entries(pairs):
    from ruamel.yaml.comments import CommentedMap

    m = CommentedMap()
    for k, v in pairs:
        m[k] = v
    s = io.StringIO()
    _yaml().dump({"settings": m}, s)
    return s.getvalue()


def _keep_only(txt, names):
    d = _load_text(txt)
    return _dump_entries([(k, v) for k, v in d.items() if k in names])


# ============================================================================================================
# part 2: instantiation of the abstract names / values
# ============================================================================================================
class Gamma:
    """One instantiation: abstract setting name -> class of real settings; per member, abstract value -> concrete value.
    All concrete values are ones TLC classified (Lib); `k` rotates through them."""

    def __init__(self, lib, rng, k=0, size=6, everything=False, injective=False, api=None, only=None, with_r=True, exclude=()):
        self.lib, self.k = lib, k
        self.api = api or ("file" if rng.random() < 0.4 else "stream")
        names = [n for n in lib.order if n not in ("versions", gs.LATE_SETTING)]
        elig = [n for n in names if lib.vals[n] and (not injective or len(lib.vals[n]) >= 2)]
        elig = [n for n in elig if n not in exclude]
        if only is not None:
            elig = [n for n in elig if n in only]
        renamed = [n for n in elig if self._old_names(n)]
        plain_ = [n for n in elig if not self._old_names(n)]
        rng.shuffle(renamed)
        rng.shuffle(plain_)
        # SettingsCase: "Q" is also a name P used to have.  The real pair (a renamed setting, a current setting that re-uses
        # one of its old names) is always placed accordingly
        for pool, m in ((renamed, gs.RENAMED_WITH_REUSED_OLD), (plain_, gs.REUSED_NAME)):
            if m in pool:
                pool.remove(m)
                pool.insert(0, m)
        if everything:
            p, rest = renamed, plain_
            q, r = rest[0::2], rest[1::2]
        else:
            p = self._pick(renamed, size)
            q = self._pick(plain_, size)
            r = self._pick([n for n in plain_ if n not in q], size)
        if not with_r:
            q, r = (q + r if everything else q), []
        self.members = {"P": p, "Q": q, "R": r, "V": ["versions"], "N": [gs.LATE_SETTING]}
        used = set(p) | set(q) | set(r) | {"versions", gs.LATE_SETTING}
        self.members["Z"] = [n for n in lib.order if n not in used]
        self.cls = {m: a for a, ms in self.members.items() for m in ms}
        self.tok = {}
        for a in ("P", "Q", "R", "V", "N"):
            for m in self.members[a]:
                self.tok[m] = self._tokens(m, k)
        for m in self.members["Z"]:
            self.tok[m] = {"d": self._default_tok(m), "x": self._bad(m, k)}
        self.old = {m: self._old_names(m)[k % len(self._old_names(m))] for m in p + [gs.LATE_SETTING]}
        self.unknown = [UNKNOWN_NAME] + sorted(x for n in lib.order for x in lib.expired_old(n))

    def _old_names(self, m):
        """the active old names of m that are nothing but old names (one that is also a current setting's name is that
        setting's: SettingsCase!OldOnly)"""
        return [o for o in self.lib.active_old(m) if o not in self.lib.entries]

    def _pick(self, pool, size):
        """`size` members, at least one of which has a refusable value (so refusals can be realised)"""
        out = pool[:size]
        if out and not any(self.lib.bad[n] for n in out):
            for n in pool[size:]:
                if self.lib.bad[n]:
                    out[-1] = n
                    break
        return out

    def _default_tok(self, m):
        e = self.lib.entries[m]
        d = self.lib.law[m]["defaultDump"]
        return {"stored": self.lib.default[m], "raw_tag": d, "dump": gs.plain_of_tag(d)}

    def _bad(self, m, k):
        b = self.lib.bad[m]
        if m == "versions":  # SettingsCase!StampRefused models a `versions` entry that is not a container
            b = [x for x in b if x["t"] in ("int", "float", "bool", "none")]
        return {"raw_tag": b[k % len(b)]} if b else None

    def _tokens(self, m, k):
        vs = self.lib.vals[m]
        a = vs[k % len(vs)]
        b = vs[(k + 1) % len(vs)]
        nc = [r for r in self.lib.noncanon[m].get(a["key"], []) if _yaml_data(gs.plain_of_tag(r)) and '"flag"' not in _json(r)]

        def tk(v, raw=None):
            return {"stored": v["stored"], "raw_tag": raw or v["dump_tag"], "dump": gs.plain_of_tag(v["dump_tag"])}

        return {"d": self._default_tok(m), "a": tk(a), "b": tk(b), "ca": tk(a, nc[k % len(nc)] if nc else None), "x": self._bad(m, k)}

    # -- expansions ------------------------------------------------------------------------------------------
    def raw(self, m, t):
        return gs.from_tag(self.tok[m][t]["raw_tag"])

    def has_bad(self, m):
        return self.tok[m].get("x") is not None

    def file_names(self, n):
        """real file names an abstract file name stands for"""
        if n in OLD_ABS:
            return [self.old[m] for m in self.members[OLD_ABS[n]]]
        if n == "Zz":
            return list(self.unknown)
        if n == "Xk":
            return [ADHOC_NAME]
        return list(self.members[n])

    def entry_members(self, n):
        """the real settings behind the file names of an abstract entry name (None for names no setting has)"""
        if n in OLD_ABS:
            return list(self.members[OLD_ABS[n]])
        if n in ("Zz", "Xk"):
            return [None] * len(self.file_names(n))
        return list(self.members[n])

    def describe(self):
        return {"k": self.k, "api": self.api, "P": self.members["P"], "Q": self.members["Q"], "R": self.members["R"],
                "Z": len(self.members["Z"])}


# ============================================================================================================
# part 3: the adapter (real Settings objects driven by the actions of SettingsCase)
# ============================================================================================================
class World:
    def __init__(self, g, quarantine, wd):
        self.g, self.quarantine, self.wd = g, quarantine, wd
        self.cs = {}
        self.text = None  # the settings file (text); self.path when the file API is used
        self.path = None
        self.nfile = 0
        self.err = ""
        self.inv = []
        self.exc = ""
        self.quarantined = 0
        self.edited = False


class Adapter:
    def __init__(self, lib, quarantine):
        self.Settings = _settings_cls()
        self.lib, self.quarantine = lib, quarantine
        self.wd = common.workdir("c17files")
        from armi.meta import __version__

        self.version = __version__
        self._n = 0

    def build(self, g):
        gs.register_late(False)           # every behaviour starts without the late plugin
        w = World(g, self.quarantine, self.wd)
        w.cs[1] = self.Settings()
        return w

    # -- file plumbing ----------------------------------------------------------------------------------------
    def _set_text(self, w, txt):
        w.text = txt
        w.edited = True
        if w.g.api == "file":
            self._n += 1
            w.path = os.path.join(self.wd, "f%d.yaml" % self._n)
            with open(w.path, "w") as f:
                f.write(txt)

    def _abstract_of(self, w, realname):
        g = w.g
        if realname in g.cls:
            return g.cls[realname]
        for m, o in g.old.items():
            if o == realname:
                return "No" if m == gs.LATE_SETTING else "Po"
        return "Xk" if realname == ADHOC_NAME else "Zz"

    def _regroup(self, w, content, order, bad_first=None):
        """re-emit the file with the entries grouped by abstract entry in the given abstract order (a user may reorder a
        file); inside a refused entry the members that carry the refused value come first"""
        groups = collections.OrderedDict((n, []) for n in order)
        for k, v in content.items():
            groups.setdefault(self._abstract_of(w, k), []).append((k, v))
        pairs = []
        for n, kv in groups.items():
            if bad_first is not None and n == bad_first[0]:
                kv = sorted(kv, key=lambda p: 0 if p[0] in bad_first[1] else 1)
            pairs += kv
        return _dump_entries(pairs)

    @staticmethod
    def _assign(cs, m, raw, k):
        """the input forms of an assignment: Settings.__setitem__, and the live Setting (Settings.items()) through setValue
        or the `value` property"""
        form = (k + len(m)) % 3
        if form == 0:
            cs[m] = raw
        elif form == 1:
            dict(cs.items())[m].setValue(raw)
        else:
            dict(cs.items())[m].value = raw

    # -- actions ----------------------------------------------------------------------------------------------
    def apply(self, w, a):
        g = w.g
        n = a["n"]
        w.err, w.exc = "", ""
        if n == "New":
            w.cs[a["id"]] = self.Settings()
        elif n == "Register":             # a plugin with a renamed setting arrives while the process runs
            gs.register_late(True)
        elif n == "Assign":
            cs = w.cs[a["o"]]
            for m in g.members[a["s"]]:
                if a["r"] == "d" and m in w.quarantine:
                    continue  # its default is not assignable (SettingSchema!DefaultAdmitted false; reported by run_laws)
                self._assign(cs, m, g.raw(m, a["r"]), g.k)
        elif n == "AssignBad":
            cs = w.cs[a["o"]]
            tried = 0
            for m in g.members[a["s"]]:
                if not g.has_bad(m):
                    continue
                tried += 1
                try:
                    self._assign(cs, m, g.raw(m, "x"), g.k)
                    w.exc = "%s accepted %r" % (m, g.raw(m, "x"))
                except Exception as ex:  # noqa: BLE001
                    w.err = "Invalid"
                    w.last_exc = type(ex).__name__
            if not tried:
                raise tlc.MachineryError("class %s has no member with a refusable value" % a["s"])
            if w.exc:
                w.err = "accepted: " + w.exc
        elif n == "AssignUnknown":
            cs = w.cs[a["o"]]
            from armi.utils.customExceptions import NonexistentSetting

            for nm in g.file_names(a["nm"]):
                try:
                    cs[nm] = 1
                    w.err = "accepted: %s" % nm
                    break
                except NonexistentSetting:
                    w.err = "Nonexistent"
        elif n == "Revert":
            w.cs[a["o"]].revertToDefaults()
        elif n == "GetSet":
            cs = w.cs[a["o"]]
            bad = a["r"] == "x"
            for m in g.members[a["s"]]:
                if (bad and not g.has_bad(m)) or (a["r"] == "d" and m in w.quarantine):
                    continue
                st = cs.getSetting(m)
                try:
                    st.setValue(g.raw(m, a["r"]))
                    if bad:
                        w.exc = "%s accepted %r" % (m, g.raw(m, "x"))
                except Exception:  # noqa: BLE001
                    if not bad:
                        raise
                    w.err = "Invalid"
                v = st.value  # whatever is done to the copy in place stays with the copy
                if isinstance(v, list):
                    v.append("c17-poke")
                elif isinstance(v, dict):
                    try:
                        v["c17-poke"] = 1
                    except Exception:  # noqa: BLE001
                        pass
            if w.exc:
                w.err = "accepted: " + w.exc
        elif n == "Write":
            self._write(w, a)
        elif n in ("SetBad", "SetOld", "AddUnknown"):
            self._edit(w, a)
        elif n == "HandWrite":
            pairs = []
            for e in a["es"]:
                names = g.file_names(e["n"])
                members = g.entry_members(e["n"])
                later = []
                for fname, m in zip(names, members):
                    if e["n"] == "Zz":
                        pairs.append((fname, 1))
                    elif e["t"] == "x":      # members that can carry a refused value first; the read never gets past them
                        if g.has_bad(m):
                            pairs.append((fname, g.raw(m, "x")))
                        else:
                            later.append((fname, g.raw(m, "a")))
                    else:
                        pairs.append((fname, g.raw(m, e["t"])))
                pairs += later
            self._set_text(w, _dump_entries(pairs))
        elif n == "Read":
            self._read(w, a)
        elif n in ("Modified", "ModifiedBad"):
            cs = w.cs[a["o"]]
            bad = n == "ModifiedBad"
            ms = [m for m in g.members[a["s"]] if (not bad or g.has_bad(m)) and not (a["r"] == "d" and m in w.quarantine)]
            if not ms:
                raise tlc.MachineryError("class %s has no member with a refusable value" % a["s"])
            try:
                new = cs.modified(newSettings={m: g.raw(m, a["r"]) for m in ms})
                if bad:
                    w.err = "accepted"
                else:
                    w.cs[a["id"]] = new
            except Exception:  # noqa: BLE001
                if not bad:
                    raise
                w.err = "Invalid"
        elif n == "ModifiedObj":          # the Setting-object form: a detached Setting carrying the new value
            cs = w.cs[a["o"]]
            objs = {}
            for m in g.members[a["s"]]:
                if a["r"] == "d" and m in w.quarantine:
                    continue
                st = cs.getSetting(m)
                st.setValue(g.raw(m, a["r"]))
                objs[m] = st
            w.cs[a["id"]] = cs.modified(newSettings=objs)
        elif n == "ModifiedNewKey":       # the new-key form
            w.cs[a["id"]] = w.cs[a["o"]].modified(newSettings={ADHOC_NAME: ADHOC_VALUE})
        elif n == "Duplicate":
            cs = w.cs[a["o"]]
            if a["kind"] == "duplicate":
                new = cs.duplicate()
            elif a["kind"] == "titled":       # the case-title form of modified(): the source keeps its own path
                before = cs.path
                new = cs.modified(caseTitle="c17copy")
                if cs.path != before or new.caseTitle != "c17copy":
                    w.err = "titled: source path %r -> %r, copy title %r" % (before, cs.path, new.caseTitle)
            elif a["kind"] == "deepcopy":
                new = copy.deepcopy(cs)
            else:
                new = pickle.loads(pickle.dumps(cs))
            w.cs[a["id"]] = new
        else:
            raise AssertionError("unknown action " + n)
        return w.err

    def _write(self, w, a):
        cs = w.cs[a["o"]]
        style = a["style"]
        w.edited = False
        if w.g.api == "file":
            self._n += 1
            path = os.path.join(self.wd, "f%d.yaml" % self._n)
            if style == "medium":
                cs.writeToYamlFile(path, style="medium", fromFile=w.path)
            else:
                cs.writeToYamlFile(path, style=style)
            with open(path) as f:
                w.text = f.read()
            w.path = path
        else:
            s = io.StringIO()
            if style == "medium":
                cs.writeToYamlStream(s, "medium", settingsSetByUser=list(_load_text(w.text).keys()))
            else:
                cs.writeToYamlStream(s, style)
            w.text = s.getvalue()

    def _edit(self, w, a):
        g = w.g
        content = collections.OrderedDict(_load_text(w.text))
        order = [e["n"] for e in a["_from_es"]]
        kind = a["n"]
        if kind == "AddUnknown":
            for nm in g.unknown:
                content[nm] = 1
            order = order + ["Zz"]
            self._set_text(w, self._regroup(w, content, order))
            return
        target = a["_from_es"][a["i"] - 1]["n"]
        if kind == "SetOld":
            new = collections.OrderedDict()
            for k, v in content.items():
                new[g.old[k] if k in g.members[target] and k in g.old else k] = v
            order[a["i"] - 1] = {v: k for k, v in OLD_ABS.items()}[target]
            self._set_text(w, self._regroup(w, new, order))
            return
        # SetBad: members of the entry that have a refusable value get it
        names = g.file_names(target)
        members = g.entry_members(target)
        hit = set()
        for fname, m in zip(names, members):
            if fname in content and g.has_bad(m):
                content[fname] = g.raw(m, "x")
                hit.add(fname)
        if not hit:
            raise tlc.MachineryError("entry %s has no member with a refusable value" % target)
        self._set_text(w, self._regroup(w, content, order, bad_first=(target, hit)))

    def _read(self, w, a):
        cs = w.cs[a["o"]]
        txt = w.text
        # quarantine: a setting whose default the reader refuses (reported once by run_laws) would make every full-style
        # file unreadable and hide everything else; its untouched default entry is taken out of the text before reading
        if w.quarantine:
            content = _load_text(txt)
            drop = [q for q in w.quarantine if q in content and gs.same(gs.plain(content[q]), w.g.tok[q]["d"]["dump"])]
            if drop:
                w.quarantined += 1
                txt = "\n".join(ln for ln in txt.splitlines() if not any(re.match(r"^\s{2}%s:" % re.escape(q), ln) for q in drop)) + "\n"
        try:
            if w.g.api == "file":
                path = w.path
                if txt != w.text:
                    self._n += 1
                    path = os.path.join(self.wd, "q%d.yaml" % self._n)
                    with open(path, "w") as f:
                        f.write(txt)
                reader = cs.loadFromInputFile(path)
            else:
                reader = cs.loadFromString(txt)
            w.inv = sorted(reader.invalidSettings)
        except Exception as ex:  # noqa: BLE001  "rejected with an error when read"
            w.err = "Invalid"
            w.exc = "%s: %s" % (type(ex).__name__, str(ex)[:300])
            w.inv = []

    # -- comparison with the specification's state ----------------------------------------------------------------
    def check(self, w, exp, act=None):
        """first difference between the real world and the state TLC printed (None if they agree)"""
        g = w.g
        if len(w.cs) != exp["n"]:
            return ".n: expected %d objects, observed %d" % (exp["n"], len(w.cs))
        if exp["err"] != w.err:
            return ".err: expected %r, observed %r %s" % (exp["err"], w.err, w.exc)
        for o in range(1, exp["n"] + 1):
            objs = dict(w.cs[o].items())
            for a in ABS_NAMES:
                if a not in exp["val"][o - 1]:
                    continue
                t = exp["val"][o - 1][a]
                if a == "N" and o not in exp.get("late", []):
                    if gs.LATE_SETTING in objs:
                        return ".late[%d]: the object has the late plugin's setting, the specification's object has not" % o
                    continue
                for m in g.members[a]:
                    if m not in objs:
                        return ".val[%d].%s:%s: setting missing" % (o, a, m)
                    got = _value(None, m, objs)
                    want = g.tok[m][t]["stored"]
                    if not gs.same(want, got):
                        return ".val[%d].%s:%s: expected %s = %r, observed %r" % (o, a, m, t, want, got)
        d = self._check_file(w, exp["file"])
        if d:
            return d
        if act is not None and act["n"] == "Read" and exp["err"] == "":
            content = set(_load_text(w.text).keys())
            got_inv = []
            for ab in INV_ORDER:
                names = [x for x in g.file_names(ab) if x in content]
                hit = [x for x in names if x in w.inv]
                if names and len(hit) == len(names):
                    got_inv.append(ab)
                elif hit:
                    got_inv.append(ab + "?partial")
            extra = [x for x in w.inv if self._abstract_of(w, x) not in INV_ORDER]
            if extra:
                got_inv.append("current:" + extra[0])
            if got_inv != list(exp["inv"]):
                return ".inv: expected %r reported invalid, observed %r (%s)" % (exp["inv"], got_inv, w.inv[:4])
        sh = self._shared(w)
        if sh != list(exp.get("shared", [])):
            return ".shared: objects share mutable state: %s" % sh[:3]
        kd = self._kinds(w)
        if kd != list(exp.get("kinds", [])):
            return ".kinds: a copy holds a setting as another class than a fresh Settings object does: %s" % kd[:3]
        has = [o for o in sorted(w.cs) if ADHOC_NAME in w.cs[o]]
        if has != list(exp.get("extra", [])):
            return ".extra: objects carrying the ad-hoc setting: expected %r, observed %r" % (exp.get("extra", []), has)
        return None

    def _check_file(self, w, ef):
        g = w.g
        if ef["style"] == "none":
            return None if w.text is None else ".file: expected no file"
        if w.text is None:
            return ".file: expected a file, none written"
        content = _load_text(w.text)
        want = {}
        for e in ef["es"]:
            names = g.file_names(e["n"])
            members = g.entry_members(e["n"])
            for fname, m in zip(names, members):
                if e["n"] == "Zz":
                    want[fname] = ("any", None)
                elif e["n"] == "Xk":
                    want[fname] = ("dump", ADHOC_VALUE)
                elif e["t"] == "x":
                    if g.has_bad(m):
                        want[fname] = ("raw", gs.plain(g.raw(m, "x")))
                    else:
                        want[fname] = ("any", None)
                elif ef["style"] == "hand":
                    want[fname] = ("raw", gs.plain(g.raw(m, e["t"])))
                else:
                    want[fname] = ("dump", g.tok[m][e["t"]]["dump"])
        miss = sorted(set(want) - set(content))
        if miss:
            return ".file.names: %s (%s) expected in the %s file, absent" % (miss[0], self._abstract_of(w, miss[0]), ef["style"])
        extra = sorted(set(content) - set(want))
        if extra:
            return ".file.names: %s (%s) not expected in the %s file, present" % (extra[0], self._abstract_of(w, extra[0]), ef["style"])
        for k, (kind, v) in want.items():
            if kind == "any":
                continue
            got = gs.plain(content[k])
            if k == "versions" and isinstance(got, dict):
                if ef["style"] != "hand" and got.get("armi") != self.version:
                    return ".file.stamp: versions.armi is %r, not %r" % (got.get("armi"), self.version)
                got = {a: b for a, b in got.items() if a != "armi"}
            if not gs.same(v, got) and not (kind == "raw" and v == got):
                return ".file.value:%s: expected %r written, observed %r" % (k, v, got)
        return None

    def _kinds(self, w):
        """settings that some live object holds as an instance of another class than Settings() does (a copy that turns an
        XSSettingDef into a plain Setting loses its dump and cannot be written any more)"""
        if not hasattr(self, "_ref_kinds"):
            self._ref_kinds = {n: type(st) for n, st in self.Settings().items()}
        out = []
        for o, cs in w.cs.items():
            for name, st in cs.items():
                want = self._ref_kinds.get(name)
                if want is not None and type(st) is not want:
                    out.append("%s(%d):%s" % (name, o, type(st).__name__))
        return sorted(out)

    def _shared(self, w):
        """settings whose Setting object or a mutable part of whose value is the same object in two live Settings objects"""
        seen = {}
        out = []
        for o, cs in w.cs.items():
            for name, st in cs.items():
                dflt = set(_mutable_ids(st, st.default)) - {id(st)}
                if dflt and dflt & set(_mutable_ids(st)):
                    out.append("%s(%d,default)" % (name, o))
                for ident in _mutable_ids(st):
                    prev = seen.get(ident)
                    if prev is not None and prev[0] != o:
                        out.append("%s(%d,%d)" % (name, prev[0], o))
                    else:
                        seen[ident] = (o, name)
        return sorted(set(out))


_VALUE = object()


def _mutable_ids(st, start=_VALUE):
    yield id(st)
    stack = [st.value if start is _VALUE else start]
    while stack:
        v = stack.pop()
        if isinstance(v, dict):
            yield id(v)
            stack.extend(v.values())
        elif isinstance(v, list):
            yield id(v)
            stack.extend(v)
        elif hasattr(v, "__dict__") and not isinstance(v, type) and not _is_enum(v):
            yield id(v)
            stack.extend(vars(v).values())


def _is_enum(v):
    import enum

    return isinstance(v, enum.Enum)


# ============================================================================================================
# part 4: replaying TLC's graph
# ============================================================================================================
def run_path(ad, g, steps, check_from=0):
    """steps: edges (from, act, to).  Executes them on a fresh world; compares after every step >= check_from.
    Returns None or a divergence record (with the index of the diverging step in "step")."""
    w = ad.build(g)
    for i, e in enumerate(steps):
        act = dict(e["act"])
        act["_from_es"] = e["from"]["file"]["es"]
        try:
            ad.apply(w, act)
            d = ad.check(w, e["to"], act) if i >= check_from else None
        except tlc.MachineryError:
            raise
        except Exception as ex:  # noqa: BLE001  a legal operation of the real code raised: a verdict
            import traceback

            d = ".exception: %s escaped from the real code: %s" % (type(ex).__name__, str(ex)[:300])
            return _div(i, d, steps, e, g, {"exception": traceback.format_exc()[-1500:]})
        if d:
            return _div(i, d, steps, e, g, {"err": w.err, "exc": w.exc, "text": (w.text or "")[:1500]})
    return None


def run_checked(ad, g, steps):
    """compare after the last step only; on a divergence (or when the harness cannot go on because an earlier step left
    the world in an unexpected state) run again comparing after every step, so that the first diverging step is named"""
    try:
        d = run_path(ad, g, steps, check_from=len(steps) - 1)
    except tlc.MachineryError:
        d = run_path(ad, g, steps, check_from=0)
        if d is None:
            raise
        return d
    if d:
        d = run_path(ad, g, steps, check_from=0) or d
    return d


def _div(i, d, steps, e, g, observed):
    return {"step": i, "diverged_at": i + 1, "first_difference": d, "behaviour": [s["act"] for s in steps[: i + 1]], "action": e["act"],
            "from": e["from"], "expected": e["to"], "observed": observed, "gamma": g.describe(), "steps": steps[: i + 1]}


def label_of(e):
    n = e["act"]["n"]
    if n == "Read" and any(x["n"] in OLD_ABS for x in e["from"]["file"]["es"]):
        return "ReadOld"
    return n


def key_of(d, e, prefix="replay"):
    fd = d["first_difference"]
    cat = fd.split(":")[0].lstrip(".").split("[")[0].split(".")[0]
    lab = label_of(e)
    member = ""
    if lab == "ReadOld":
        return "%s:ReadOld" % prefix
    if cat == "kinds":
        return "%s:%s:kinds" % (prefix, lab)
    if lab != "ReadOld":
        m = re.match(r"^\.(?:val\[\d+\]\.\w+|file\.value):(\w+):", fd)
        if m:
            member = ":" + m.group(1)
    return "%s:%s:%s%s" % (prefix, lab, cat, member)


_EMIT_CACHE = {}


def emit_graph(cfg):
    if cfg not in _EMIT_CACHE:
        res = tlc.run("SettingsCase_mc", cfg, MODDIR, workers=1, coverage=False, timeout=1800)
        if res.violation:
            raise tlc.MachineryError("%s: %s" % (cfg, res.violation["trace"][:1500]))
        edges = [p for p in res.prints if isinstance(p, dict) and "act" in p]
        for e in edges:
            _fix_empty(e["from"])
            _fix_empty(e["to"])
            if "es" in e["act"]:
                e["act"]["es"] = _aslist(e["act"]["es"])
        _EMIT_CACHE[cfg] = (res, rp.Graph(edges))
    return _EMIT_CACHE[cfg]


def _aslist(x):
    return [] if x == {} else x


def _fix_empty(st):
    """ToJson prints an empty sequence built by a function constructor as {}"""
    st["file"]["es"] = _aslist(st["file"]["es"])
    st["inv"] = _aslist(st["inv"])
    st["shared"] = _aslist(st["shared"])
    st["kinds"] = _aslist(st.get("kinds", []))
    st["extra"] = _aslist(st.get("extra", []))
    st["late"] = _aslist(st.get("late", []))


def replay_edges(rep, ad, lib, graph, label, rng, size, max_edges=None, rounds=1, exclude=()):
    """every edge (s, a, t): path(s) ; a on fresh real objects, compared with t; one fresh instantiation per edge"""
    edges = list(graph.edges)
    if max_edges is not None and len(edges) > max_edges:
        # a sample that keeps every kind of action represented: at least 20 edges per action name, the rest at random
        by = collections.defaultdict(list)
        for e in edges:
            by[e["act"]["n"]].append(e)
        pick = []
        for name in sorted(by):
            pick += rng.sample(by[name], min(20, len(by[name])))
        chosen = {id(e) for e in pick}
        rest = [e for e in edges if id(e) not in chosen]
        pick += rng.sample(rest, max(0, min(len(rest), max_edges - len(pick))))
        edges = pick
    n = nt = 0
    ndiv = 0
    with_r = any("R" in e["to"]["val"][0] for e in edges[:1])
    for rnd in range(rounds):
        for e in edges:
            pre = graph.path.get(e["_fk"])
            if pre is None:
                continue
            g = Gamma(lib, rng, k=rng.randrange(1000), size=size, with_r=with_r, exclude=exclude)
            steps = [rp.strip(x) for x in pre] + [rp.strip(e)]
            d = run_checked(ad, g, steps)
            n += 1
            nt += e["_fk"] != e["_tk"]
            if d:
                ndiv += 1
                at = steps[d["step"]]
                rep.violation(key_of(d, at), "real Settings objects diverge from SettingsCase after %s: %s" % (json.dumps(at["act"]), d["first_difference"]),
                              dict(d, direction="replay"))
                if len(rep.violations) >= 60:
                    break
    rep.add_replay(label, n, nt,
                   "every edge (s,a,t) of TLC's state graph is executed as path(s);a on fresh armi Settings objects, each abstract "
                   "setting instantiated by a class of real settings; non-trivial = the edge changes the abstract state")
    return n


# ============================================================================================================
# part 5: the sweep -- every real setting x every admitted / refused value x every style, along paths of TLC's graph
# ============================================================================================================
def find_path(graph, acts):
    """the edges of TLC's graph that realise the given action sequence from the initial state"""
    (root,) = list(graph.roots) or [None]
    k = root
    out = []
    for want in acts:
        nxt = [e for e in graph.succ.get(k, ()) if all(e["act"].get(a) == b for a, b in want.items())]
        if not nxt:
            raise tlc.MachineryError("TLC's graph has no edge %s after %s" % (want, [x["act"] for x in out]))
        out.append(rp.strip(nxt[0]))
        k = nxt[0]["_tk"]
    return out


def A(n, **kw):
    return dict(kw, n=n)


def run_sweep(rep, ad, lib, graph, rng, thorough, quarantine, brief=False):
    """(a) round trip: all eligible settings at once, value index k, every style, both APIs;
       (b) refusal on read: per setting and refused value, the edited short file is refused and nothing changes."""
    n = nt = 0
    kmax = max(len(v) for v in lib.vals.values())
    ks = range(kmax) if thorough else range(min(kmax, 2 if brief else 3 if _SELFTEST else 6))
    seqs = []
    for style in ("short", "medium", "full"):
        w1 = [A("Write", o=1, style=style)] if style != "medium" else [A("Write", o=1, style="short"), A("New"), A("Read", o=2), A("Write", o=1, style="medium")]
        tail = [A("New"), A("Read", o=2)] if style != "medium" else [A("Read", o=2)]
        seqs.append((style, "ca", [A("Assign", o=1, s="Q", r="ca"), A("Assign", o=1, s="P", r="ca")] + w1 + tail))
        seqs.append((style, "b", [A("Assign", o=1, s="V", r="a"), A("Assign", o=1, s="Q", r="b")] + w1 + tail))
    # every renamed setting at once under its old name
    seqs.append(("short", "old", [A("Assign", o=1, s="P", r="a"), A("Write", o=1, style="short"), A("SetOld", i=1), A("New"), A("Read", o=2)]))
    paths = [(st, tk, find_path(graph, sq)) for st, tk, sq in seqs]
    for k in ks:
        for i, (style, tk, path) in enumerate(paths):
            g = Gamma(lib, rng, k=k, everything=True, with_r=False, api=("file", "stream")[(k + i) % 2])
            d = run_path(ad, g, path, check_from=0)
            n += 1
            nt += 1
            if d:
                at = path[d["step"]]
                rep.violation(key_of(d, at, "sweep"), "round trip of every setting (value #%d, %s style, %s API) diverges after %s: %s" % (
                    k, style, g.api, json.dumps(at["act"]), d["first_difference"]), dict(d, direction="sweep"))
    if brief:
        rep.add_replay("sweep-roundtrip(other plugin order)", n, nt)
        return n, 0
    # (a') the nested settings (cross-section control, tight coupling, cycle history), alone in a file: every admitted value
    #      (among them the groups with falsy-but-set fields) in every style
    nn = 0
    nested = [m for m in lib.order if lib.entries[m]["name"] == "cycles" or (lib.entries[m]["hasCustom"] and lib.entries[m]["custom"]["k"] == "fn")]
    for m in nested:
        for k in range(len(lib.vals[m])):
            for i, (style, tk, path) in enumerate(paths):
                if tk != "ca":
                    continue
                g = Gamma(lib, rng, k=k, only={m}, with_r=False, api=("file", "stream")[(k + i) % 2])
                d = run_checked(ad, g, path)
                nn += 1
                if d:
                    at = path[d["step"]]
                    rep.violation(key_of(d, at, "sweep"), "round trip of %s = %r (%s style, %s API) diverges after %s: %s" % (
                        m, g.tok[m]["a"]["stored"], style, g.api, json.dumps(at["act"]), d["first_difference"]), dict(d, direction="sweep", setting=m))
    rep.add_replay("sweep-nested", nn, nn, "crossSectionControl, tightCouplingSettings, cycles, flag lists: every admitted value x every style, alone in a file")
    if rep.samples is not None and paths:
        rep.sample({"kind": "sweep path", "acts": [e["act"] for e in paths[0][2]], "expected_final": paths[0][2][-1]["to"]})
    # (b) refusal on read, per setting
    pq = find_path(graph, [A("Assign", o=1, s="Q", r="a"), A("Write", o=1, style="short"), A("SetBad", i=1), A("New"),
                           A("Assign", o=2, s="Q", r="b"), A("Read", o=2)])
    pp = find_path(graph, [A("Assign", o=1, s="P", r="a"), A("Write", o=1, style="short"), A("SetBad", i=1), A("New"), A("Read", o=2)])
    nbad = 0
    for m in lib.order:
        if m in ("versions", gs.LATE_SETTING) or not lib.vals[m] or not lib.bad[m]:
            continue      # (the late plugin's setting has its refusals in the late-plugin stories)
        nb = min(len(lib.bad[m]), 12) if thorough else min(len(lib.bad[m]), 1 if _SELFTEST else 2)
        for k in range(nb):
            kk = rng.randrange(len(lib.bad[m]))
            g = Gamma(lib, rng, k=kk, only={m}, with_r=False, api=("file", "stream")[k % 2])
            path = pp if g.members["P"] else pq
            d = run_checked(ad, g, path)
            nbad += 1
            if d:
                at = path[d["step"]]
                rep.violation(key_of(d, at, "sweep") + (":" + m if ":" + m not in key_of(d, at, "sweep") else ""),
                              "setting %s, refused value %r in a file: %s" % (m, g.raw(m, "x"), d["first_difference"]),
                              dict(d, direction="sweep", setting=m))
    rep.add_replay("sweep-roundtrip", n, nt, "the round-trip paths of TLC's graph with every eligible real setting in a class, value index k, per style and API")
    rep.add_replay("sweep-read-refusal", nbad, nbad, "per real setting and refused value: configure, write short, put the refused value in the file, read into another object")
    return n, nbad


# values TLC classifies as admitted whose *use while loading* fails (kept out of the instantiations, reported here)
HOOK_PROBES = (
    ("userPlugins", {"t": "none", "v": ""}, "None"),
    ("moduleVerbosity", {"t": "dict", "v": [[{"t": "str", "v": "a"}], [{"t": "int", "v": 1}]]}, "int-level"),
)


def run_hook_probes(rep, lib):
    Settings = _settings_cls()
    n = 0
    for name, raw, tag in HOOK_PROBES:
        cases = [c for c in lib.cases.get(name, ()) if _json(c["raw"]) == _json(raw)]
        if not cases or cases[0]["r"] != "ok":
            continue  # not admitted (any more): nothing to probe
        n += 1
        cs = Settings()
        cs[name] = gs.from_tag(raw)
        s = io.StringIO()
        cs.writeToYamlStream(s, "short")
        fn = os.path.join(common.workdir("c17probe"), "p.yaml")
        with open(fn, "w") as f:
            f.write(s.getvalue())
        for api in ("string", "file"):
            cs2 = Settings()
            try:
                cs2.loadFromString(s.getvalue()) if api == "string" else cs2.loadFromInputFile(fn)
                if not gs.same(_value(cs2, name), gs.plain_of_tag(cases[0]["out"])):
                    raise AssertionError("read back %r" % (_value(cs2, name),))
            except Exception as ex:  # noqa: BLE001
                rep.violation("hook:%s:%s" % (name, tag),
                              "%s = %r is admitted by the setting's schema (TLC and the real assignment agree) and written, but reading the file back fails: %s: %s"
                              % (name, gs.from_tag(raw), type(ex).__name__, str(ex)[:200]),
                              {"direction": "probe", "setting": name, "file": s.getvalue(), "api": api})
                break
    return n


# ============================================================================================================
# part 6: code -> spec: random histories on real objects, abstracted, validated by SettingsCase_trace
# ============================================================================================================
MAXOBJ_TRACE = 4


class Abstractor:
    """real world -> abstract state (the St record of SettingsCase_mc) under an injective instantiation"""

    def __init__(self, ad):
        self.ad = ad

    def val(self, w):
        g = w.g
        out = []
        for o in sorted(w.cs):
            objs = dict(w.cs[o].items())
            rec = {}
            for a in ABS_NAMES:
                if not g.members[a]:
                    continue
                toks = ("d",) if a == "Z" else ("d", "a") if a == "V" else ("d", "a", "b")
                if a == "N" and gs.LATE_SETTING not in objs:
                    rec[a] = "d"       # the object has no such setting: the specification keeps the slot at "d" (Has)
                    continue
                fit = [t for t in toks if all(gs.same(g.tok[m][t]["stored"], _value(None, m, objs)) for m in g.members[a])]
                rec[a] = fit[0] if len(fit) == 1 else "?"
            out.append(rec)
        return out

    def file(self, w, style):
        g = w.g
        if w.text is None:
            return {"es": [], "style": "none"}
        content = _load_text(w.text)
        seen, es = [], []
        for k in content:
            ab = self.ad._abstract_of(w, k)
            if ab not in seen:
                seen.append(ab)
        if style != "hand" and not w.edited:
            # a file as the writer left it is sorted by real name; the specification lists its entries in the writer's
            # order of the abstract names (an order only matters once a user has arranged the file: edits, hand files)
            seen.sort(key=lambda x: "PNQRVZ".index(x) if x in "PNQRVZ" else 9)   # (the ad-hoc name sorts last in both)
        for ab in seen:
            names = g.file_names(ab)
            members = g.entry_members(ab)
            present = [(f, m) for f, m in zip(names, members) if f in content]
            if len(present) != len(names):
                es.append({"n": ab, "t": "?partial"})
                continue
            if ab == "Zz":
                es.append({"n": ab, "t": "a"})
                continue
            if ab == "Xk":
                es.append({"n": ab, "t": "d" if content[ADHOC_NAME] == ADHOC_VALUE else "?"})
                continue
            fit = []
            for t in ("d", "a", "b"):
                if all(t in g.tok[m] and (gs.same(g.tok[m][t]["dump"], self._fv(f, content)) or (style == "hand" and gs.plain(g.raw(m, t)) == self._fv(f, content)))
                       for f, m in present):
                    fit.append(t)
            if len(fit) == 1:
                es.append({"n": ab, "t": fit[0]})
            elif any(g.has_bad(m) and gs.plain(g.raw(m, "x")) == self._fv(f, content) for f, m in present):
                es.append({"n": ab, "t": "x"})
            else:
                es.append({"n": ab, "t": "?"})
        return {"es": es, "style": style}

    @staticmethod
    def _fv(f, content):
        v = gs.plain(content[f])
        if f == "versions" and isinstance(v, dict):
            v = {a: b for a, b in v.items() if a != "armi"}
        return v

    def state(self, w, style, act, prev=None):
        """the abstract state after `act`.  What armi produced (values, written files, errors, the reader's invalid list,
        sharing) is abstracted from the real objects; a file the harness itself authored (hand-written, edited) is
        described by the entries it was asked to author."""
        g = w.g
        n = act["n"]
        if n == "Write" or prev is None:
            f = self.file(w, style)
        elif n == "HandWrite":
            f = {"es": [dict(e) for e in act["es"]], "style": "hand"}
        elif n in ("SetBad", "SetOld", "AddUnknown"):
            es = [dict(e) for e in prev["file"]["es"]]
            if n == "SetBad":
                es[act["i"] - 1]["t"] = "x"
            elif n == "SetOld":
                es[act["i"] - 1]["n"] = {v: k for k, v in OLD_ABS.items()}[es[act["i"] - 1]["n"]]
            else:
                es.append({"n": "Zz", "t": "a"})
            f = {"es": es, "style": prev["file"]["style"]}
        else:
            f = prev["file"]
        inv = list(prev["inv"]) if prev is not None else []
        if n == "Read":
            inv = []
            if w.err == "":
                content = set(_load_text(w.text).keys())
                for ab in INV_ORDER:
                    names = [x for x in g.file_names(ab) if x in content]
                    hit = [x for x in names if x in w.inv]
                    if names and len(hit) == len(names):
                        inv.append(ab)
                    elif hit:
                        inv.append(ab + "?")
                if any(self.ad._abstract_of(w, x) not in INV_ORDER for x in w.inv):
                    inv.append("current?")
        return {"n": len(w.cs), "val": self.val(w), "file": f, "err": w.err if w.err in ("", "Invalid", "Nonexistent") else "?" + w.err[:40],
                "inv": inv, "shared": self.ad._shared(w), "kinds": self.ad._kinds(w), "extra": [o for o in sorted(w.cs) if ADHOC_NAME in w.cs[o]],
                "late": [o for o in sorted(w.cs) if gs.LATE_SETTING in w.cs[o]], "reg": gs.late_registered()}


def trace_driver(ad, lib, hand_files, ntraces, nev, seed, exclude):
    rng = random.Random(seed * 7919 + 17)
    ab = Abstractor(ad)
    traces = []
    for t in range(ntraces):
        g = Gamma(lib, rng, k=rng.randrange(1000), size=rng.choice((2, 5, 12)), injective=True, exclude=exclude)
        w = ad.build(g)
        style = "none"
        st = ab.state(w, style, {"n": "Init"})
        ev = []
        for _ in range(nev):
            a = _random_action(rng, st, hand_files, g)
            if a is None:
                continue
            act = dict(a, _from_es=st["file"]["es"])
            try:
                ad.apply(w, act)
                if a["n"] == "Write":
                    style = a["style"]
                elif a["n"] == "HandWrite":
                    style = "hand"
                st = ab.state(w, style, a, st)
                ev.append({"a": a, "post": st})
            except tlc.MachineryError:
                raise
            except Exception as ex:  # noqa: BLE001  an escaping exception ends the history; TLC rejects the event
                ev.append({"a": a, "post": {"exception": "%s: %s" % (type(ex).__name__, str(ex)[:200])}})
                break
            if any("?" in json.dumps(x) for x in (st["val"], st["file"], st["inv"])):
                break  # not abstractable any more: TLC rejects this event; nothing after it would be meaningful
        traces.append({"id": "t%d" % t, "ev": ev, "gamma": g.describe()})
    gs.register_late(False)
    return traces


def _random_action(rng, st, hand_files, g):
    n = st["n"]
    es = st["file"]["es"]
    o = rng.randrange(1, n + 1)
    names = [a for a in ("P", "Q", "R", "V", "Z") if g.members[a]] + (["N", "N"] if o in st["late"] else [])
    kind = rng.choice(["Register", "Register", "Assign", "Assign", "Assign", "AssignBad", "AssignUnknown", "GetSet", "Revert", "Write", "Write", "Read", "Read",
                       "SetBad", "SetOld", "AddUnknown", "HandWrite", "New", "Modified", "ModifiedObj", "ModifiedNewKey", "ModifiedBad",
                       "Duplicate"])

    def raws(s):
        return ["d"] if s == "Z" else ["d", "a", "ca"] if s == "V" else ["d", "a", "b", "ca"]

    if kind == "Register":
        return {"n": kind} if not st["reg"] else None
    if kind == "ModifiedNewKey":
        return {"n": kind, "o": o, "id": n + 1} if n < MAXOBJ_TRACE and o not in st["extra"] else None
    if kind in ("Assign", "Modified", "ModifiedObj"):
        s = rng.choice(names)
        a = {"n": kind, "o": o, "s": s, "r": rng.choice(raws(s))}
        if kind != "Assign":
            if n >= MAXOBJ_TRACE:
                return None
            a["id"] = n + 1
        return a
    if kind in ("AssignBad", "ModifiedBad"):
        if kind == "ModifiedBad" and n >= MAXOBJ_TRACE:
            return None
        s = rng.choice(names)
        if not any(g.has_bad(m) for m in g.members[s]):
            return None
        return {"n": kind, "o": o, "s": s, "r": "x"}
    if kind == "AssignUnknown":
        return {"n": kind, "o": o, "nm": rng.choice(["Po", "Zz", "No"] + ([] if o in st["late"] else ["N"]))}
    if kind == "GetSet":
        s = rng.choice(names)
        r = rng.choice(raws(s) + ["x"])
        if r == "x" and not any(g.has_bad(m) for m in g.members[s]):
            return None
        return {"n": kind, "o": o, "s": s, "r": r}
    if kind == "Revert":
        return {"n": kind, "o": o}
    if kind == "Write":
        style = rng.choice(["short", "full", "medium"])
        if style == "medium" and st["file"]["style"] == "none":
            style = "short"
        return {"n": kind, "o": o, "style": style}
    if kind == "Read":
        return {"n": kind, "o": o} if st["file"]["style"] != "none" else None
    if kind == "SetBad":
        cand = [i + 1 for i, e in enumerate(es) if e["t"] in ("d", "a", "b", "ca") and e["n"] not in ("Zz", "Xk")
                and any(g.has_bad(m) for m in g.entry_members(e["n"]))]
        return {"n": kind, "i": rng.choice(cand)} if cand else None
    if kind == "SetOld":
        cand = [i + 1 for i, e in enumerate(es) if e["n"] in ("P", "N") and not any(OLD_ABS.get(x["n"]) == e["n"] for x in es)]
        return {"n": kind, "i": rng.choice(cand)} if cand else None
    if kind == "AddUnknown":
        return {"n": kind} if st["file"]["style"] != "none" and not any(e["n"] == "Zz" for e in es) else None
    if kind == "HandWrite":
        ok = [h for h in hand_files if all(e["n"] == "Zz" or g.entry_members(e["n"]) for e in h)]
        return {"n": kind, "es": rng.choice(ok)} if ok else None
    if kind == "New":
        return {"n": kind, "id": n + 1} if n < MAXOBJ_TRACE else None
    if kind == "Duplicate":
        return {"n": kind, "o": o, "kind": rng.choice(["duplicate", "deepcopy", "pickle", "titled"]), "id": n + 1} if n < MAXOBJ_TRACE else None
    return None


# ============================================================================================================
# part 7: run / replay / selftest
# ============================================================================================================
CASE_ACTIONS = ("New", "Register", "DoModifiedObj", "DoModifiedNewKey", "DoAssign", "DoAssignBad", "DoAssignUnknown", "DoGetSet", "DoRevert", "DoWrite", "DoSetBad", "DoSetOld",
                "AddUnknown", "DoHandWrite", "DoRead", "DoModified", "DoModifiedBad", "DoDuplicate")
_SELFTEST = False


def _hand_files(graph):
    hand = []
    for e in graph.edges:
        if e["act"]["n"] == "HandWrite" and e["act"]["es"] not in hand:
            hand.append(e["act"]["es"])
    return hand


def run(rep, tier, seed):
    from concurrent.futures import ThreadPoolExecutor

    thorough = tier == "thorough"
    sfx = "_thorough" if thorough else ""
    for m in ("SettingSchema_mc", "SettingSchema_cat", "SettingsCase_mc", "SettingsCase_trace"):
        tlc.sany(m, MODDIR)
    rep.exhaustive = True
    rng = random.Random(seed)

    # 1. TLC in the background while the real code is exercised: the emission runs and the catalog run (one worker each),
    #    and the exhaustive runs one after the other (four workers)
    pool = ThreadPoolExecutor(max_workers=6)
    gs.register_late(False)
    gs.set_plugin_order(gs.ORDERS[seed % 2])          # the main body runs under one registration order, part 3b under the other
    f_cat = pool.submit(schema_cases, gs.catalog())
    f_late = pool.submit(emit_graph, "SettingsCase_emit_late.cfg")
    f_io = pool.submit(emit_graph, "SettingsCase_emit_io%s.cfg" % sfx)
    f_copy = pool.submit(emit_graph, "SettingsCase_emit_copy%s.cfg" % sfx)
    f_all = pool.submit(emit_graph, "SettingsCase_emit_all_thorough.cfg") if thorough and not _SELFTEST else None

    def exhaustive():
        out = [("SettingSchema_mc", "SettingSchema_mc.cfg", tlc.run("SettingSchema_mc", "SettingSchema_mc.cfg", MODDIR, workers=2, coverage=False, want_prints=False, timeout=3000))]
        for cfg in ("SettingsCase_late.cfg", "SettingsCase_mc%s.cfg" % sfx, "SettingsCase_io%s.cfg" % sfx, "SettingsCase_copy%s.cfg" % sfx):
            out.append(("SettingsCase_mc", cfg, tlc.run("SettingsCase_mc", cfg, MODDIR, workers=8 if thorough else 4, want_prints=False, timeout=3000)))
        return out

    f_exh = None

    # 2. SettingSchema over the catalog; every case on the real code; data laws; load hooks
    lib, cres, skipped = f_cat.result()
    if not _SELFTEST:
        f_exh = pool.submit(exhaustive)     # started once the catalog run (on the critical path) is through
    rep.add_tlc("cases:SettingSchema_cat.cfg", cres, {"settings": len(lib.order), "universe+extras per setting": "~95"})
    if skipped:
        rep.note("settings whose declaration could not be expressed (skipped, not judged): %s" % skipped)
    nd = run_decls(rep, lib, gs.ORDERS[seed % 2])
    n_ok, n_bad, n_unm = run_cases(rep, lib)
    if n_ok < 1000 or n_bad < 1000:
        raise tlc.MachineryError("too few schema cases executed (%d accepted, %d refused)" % (n_ok, n_bad))
    rep.add_replay("schema-cases", n_ok + n_bad, n_ok + n_bad,
                   "one real assignment cs[name] = value per case TLC printed from SettingSchema_cat (verdict, stored value, dump, previous "
                   "value kept on refusal); %d cases outside the string/repr tables are skipped as unmodelled" % n_unm)
    rep.extra["schema_cases"] = {"accepted": n_ok, "refused": n_bad, "unmodelled_skipped": n_unm, "settings": len(lib.order),
                                 "plugin_settings_added_by_harness": list(gs.PLUGIN_SETTINGS)}
    c0 = next(c for c in lib.cases["nCycles"] if c["r"] == "ok" and _json(c["raw"]) != _json(c["out"]))
    rep.sample({"kind": "schema case", "case": c0})
    quarantine = run_laws(rep, lib)
    run_hook_probes(rep, lib)
    ad = Adapter(lib, quarantine)

    # 3. spec -> code: edges of the two plans, the sweep
    (ires, gio), (cres2, gcopy) = f_io.result(), f_copy.result()
    rep.add_tlc("edges:SettingsCase_emit_io%s.cfg" % sfx, ires)
    rep.add_tlc("edges:SettingsCase_emit_copy%s.cfg" % sfx, cres2)
    if len(gio.edges) < 500 or len(gcopy.edges) < 500:
        raise tlc.MachineryError("emission produced too few edges (%d, %d)" % (len(gio.edges), len(gcopy.edges)))
    sizes = (4, 8) if not thorough else (6, 14)
    import time as _t

    t0 = _t.time()
    stages = rep.extra.setdefault("stage_wall_s", {})
    n1 = replay_edges(rep, ad, lib, gio, "io-edges", rng, sizes[0], max_edges=3500 if thorough else (200 if _SELFTEST else 330), exclude=quarantine)
    stages["io-edges"] = round(_t.time() - t0, 1)
    t0 = _t.time()
    n2 = replay_edges(rep, ad, lib, gcopy, "copy-edges", rng, sizes[1], max_edges=4000 if thorough else (300 if _SELFTEST else 580), exclude=quarantine)
    stages["copy-edges"] = round(_t.time() - t0, 1)
    t0 = _t.time()
    # 3a. the late-plugin stories: a text is read, then a plugin with a renamed setting is registered, then its old name is read
    lres, glate = f_late.result()
    rep.add_tlc("edges:SettingsCase_emit_late.cfg", lres)
    if not any(e["act"]["n"] == "Read" and e["from"]["reg"] and any(x["n"] == "No" for x in e["from"]["file"]["es"]) for e in glate.edges):
        raise tlc.MachineryError("the late-plugin graph has no read of the late setting's old name")
    replay_edges(rep, ad, lib, glate, "late-plugin-edges", rng, 3, rounds=1 if _SELFTEST else (4 if thorough else 2), exclude=quarantine)
    stages["late-edges"] = round(_t.time() - t0, 1)
    t0 = _t.time()
    if f_all is not None:
        ares, gall = f_all.result()
        rep.add_tlc("edges:SettingsCase_emit_all_thorough.cfg", ares)
        replay_edges(rep, ad, lib, gall, "all-edges(sampled)", rng, 6, max_edges=3000, exclude=quarantine)
        stages["all-edges"] = round(_t.time() - t0, 1)
        t0 = _t.time()
    if not n1 or not n2:
        raise tlc.MachineryError("no edges replayed")
    e = gio.edges[len(gio.edges) // 2]
    rep.sample({"kind": "edge", "path": [s["act"] for s in gio.path[e["_fk"]]], "act": e["act"], "expected": rp.strip(e)["to"]})
    run_sweep(rep, ad, lib, gio, rng, thorough and not _SELFTEST, quarantine)
    stages["sweep"] = round(_t.time() - t0, 1)
    t0 = _t.time()
    # 3b. the other registration order of the defining and the modifying plugin: the declarations App.getSettings hands out
    #     must be the same merged ones (SettingSchema!EffDecl); all cases again, the round-trip sweep and a sample of edges
    other = gs.ORDERS[(seed + 1) % 2]
    gs.set_plugin_order(other)
    nd += run_decls(rep, lib, other)
    o_ok, o_bad, _ = run_cases(rep, lib)
    rep.add_replay("schema-cases(other plugin order)", o_ok + o_bad, o_ok + o_bad)
    run_sweep(rep, ad, lib, gio, rng, False, quarantine, brief=True)
    replay_edges(rep, ad, lib, gio, "io-edges(other plugin order)", rng, sizes[0], max_edges=600 if thorough else 70, exclude=quarantine)
    rep.extra["plugin_orders"] = {"main": gs.ORDERS[seed % 2], "other": other, "declarations_compared": nd}
    gs.set_plugin_order(gs.ORDERS[seed % 2])
    stages["other-order"] = round(_t.time() - t0, 1)
    t0 = _t.time()

    # 4. code -> spec: random histories
    ntr, nev = (300, 36) if thorough else ((30, 18) if _SELFTEST else (50, 20))
    hand = _hand_files(gio)
    hand += [h for h in _hand_files(glate) if h not in hand]
    traces = trace_driver(ad, lib, hand, ntr, nev, seed, quarantine)
    bad, stats = tracecheck.validate("SettingsCase_trace", "SettingsCase_trace.cfg", MODDIR, traces, timeout=3000)
    stages["traces"] = round(_t.time() - t0, 1)
    rep.add_tlc("trace-validation", stats["tlc"])
    rep.add_traces("random-settings-histories", len(traces), sum(len(t["ev"]) for t in traces),
                   "seeded random histories (assign, refuse, write in three styles through both APIs, edit, hand-write, read, copy four "
                   "ways, revert) on up to 4 real Settings objects under injective instantiations; every event's whole abstracted "
                   "post-state must be a step of SettingsCase")
    rep.sample({"kind": "trace", "id": traces[0]["id"], "gamma": traces[0]["gamma"], "events": traces[0]["ev"][:2]})
    for b in bad:
        ev = b["trace"]["ev"]
        k = b["matched"]
        nxt = ev[k] if k < len(ev) else {}
        lab = nxt.get("a", {}).get("n", b.get("invariant", "?"))
        if lab == "Read" and k > 0 and any(x["n"] in OLD_ABS for x in ev[k - 1]["post"].get("file", {}).get("es", [])):
            lab = "ReadOld"
        rep.violation("trace:%s" % lab, "recorded history is not a behaviour of SettingsCase at event %d (%s): specification expects %s, observed %s" % (
            k + 1, json.dumps(nxt.get("a")), json.dumps(b.get("mismatch", {}).get("expected", ""))[:500], json.dumps(nxt.get("post"))[:500]),
            {"direction": "trace", "trace": b["trace"], "matched": k, "tlc": b.get("tlc")})

    # 5. verdicts of the exhaustive runs, non-vacuity
    taken = collections.Counter()
    exh = f_exh.result() if f_exh is not None else []
    for mod, cfg, res in exh:
        rep.add_tlc("exhaustive:" + cfg, res)
        if res.violation:
            rep.violation("tlc:%s:%s" % (mod, res.violation["name"]), "TLC: %s violated in %s (%s)" % (res.violation["name"], mod, cfg),
                          {"direction": "tlc", "trace": res.violation["trace"][:20000]})
        if mod == "SettingsCase_mc":
            for a in CASE_ACTIONS:
                taken[a] += res.coverage.get(a, (0, 0))[1] + res.coverage.get(a[2:] if a.startswith("Do") else a + "_", (0, 0))[1]
        elif res.distinct < 300:
            raise tlc.MachineryError("SettingSchema_mc explored only %d states" % res.distinct)
    pool.shutdown()
    if exh:
        never = [a for a in CASE_ACTIONS if not taken[a]]
        if never:
            raise tlc.MachineryError("vacuous: actions never taken in the exhaustive runs: %s" % never)
    rep.extra["tolerances"] = "none: values are compared exactly (type-strict; containers by content)"
    rep.assume(
        "values are YAML data: None, bool, int, float (finite), str, list, dict with string keys; armi Flags only for flag-list settings",
        "type violation = the coercion the schema prescribes is undefined for the value (armi coerces on purpose: 3.7 -> 3 for an int setting, anything -> bool/str)",
        "option-list violation = enforced options (Setting.enforcedOptions); for settings that list options without enforcing them only listed values are used as valid user values",
        "`versions`: the entry `armi` is the writer's stamp, compared separately; values of `versions` are taken modulo that entry",
        "settings acted on while a file loads: userPlugins is kept at [] (a load imports what it names), moduleVerbosity values are level names / numeric strings; "
        "the schema-admitted values excluded by this (userPlugins None, an int level) are probed separately (hook:* keys)",
        "reading overlays the object: equality of every setting is claimed for a fresh reading object and for full-style files (SettingsCase!RoundTripFresh/RoundTripFull, ReadIsOverlay)",
        "a setting whose default its own schema refuses (SettingSchema!DefaultAdmitted false; reported as default-rejected:<name>) is kept in the untouched class and its default entry is "
        "taken out of full-style texts before they are read, so that the remaining checks stay meaningful",
        "six settings are contributed by three plugins the harness registers through armi's plugin hook defineSettings, because no built-in plugin uses those mechanisms: one plugin defines "
        "a flag list, active/expired/future old names, enforced options, a float-list default and a count; a second contributes an Option and two Defaults for them and the two are registered "
        "in both orders (App.getSettings' direct and cached branches); a third defines a renamed setting and is registered in the middle of behaviours (action Register)",
    )


def _gamma_from(lib, desc):
    g = Gamma(lib, random.Random(0), k=desc["k"], api=desc["api"], only=set(desc["P"]) | set(desc["Q"]) | set(desc["R"]), size=10 ** 6,
              with_r=bool(desc["R"]))
    # the recorded classes, in the recorded order
    for a in ("P", "Q", "R"):
        g.members[a] = list(desc[a])
    used = set(desc["P"]) | set(desc["Q"]) | set(desc["R"]) | {"versions"}
    g.members["Z"] = [n for n in lib.order if n not in used]
    g.cls = {m: a for a, ms in g.members.items() for m in ms}
    for a in ("P", "Q", "R"):
        for m in g.members[a]:
            g.tok[m] = g._tokens(m, g.k)
    for m in g.members["Z"]:
        g.tok[m] = {"d": g._default_tok(m), "x": g._bad(m, g.k)}
    g.old = {m: g._old_names(m)[g.k % len(g._old_names(m))] for m in g.members["P"] + [gs.LATE_SETTING]}
    return g


def replay(payload):
    lib, _res, _sk = schema_cases()
    d = payload.get("direction")
    if d in ("replay", "sweep"):
        rep_ = _NullRep()
        quarantine = run_laws(rep_, lib)
        ad = Adapter(lib, quarantine)
        g = _gamma_from(lib, payload["gamma"])
        out = run_path(ad, g, payload["steps"], check_from=0)
        print(json.dumps(out, indent=1, default=str) if out else "no divergence: behaviour conforms")
        return 1 if out else 0
    if d == "case":
        Settings = _settings_cls()
        cs = Settings()
        c = payload.get("case")
        if c:
            try:
                cs[c["s"]] = gs.from_tag(c["raw"])
                print("cs[%r] = %r accepted; stored %r; specification: %s %r" % (c["s"], gs.from_tag(c["raw"]), _value(cs, c["s"]), c["r"], gs.plain_of_tag(c["out"])))
            except Exception as ex:  # noqa: BLE001
                print("cs[%r] = %r refused with %s; specification: %s" % (c["s"], gs.from_tag(c["raw"]), type(ex).__name__, c["r"]))
        return 1
    if d in ("law", "probe"):
        Settings = _settings_cls()
        try:
            if payload.get("api") == "file":
                fn = os.path.join(common.workdir("c17replay"), "replay.yaml")
                with open(fn, "w") as f:
                    f.write(payload["file"])
                Settings().loadFromInputFile(fn)
            else:
                Settings().loadFromString(payload["file"])
            print("the file is read without error")
            return 0
        except Exception as ex:  # noqa: BLE001
            print("reading\n%s\nraises %s: %s" % (payload["file"], type(ex).__name__, ex))
            return 1
    print("replay of direction=%s: see payload (TLC trace / recorded trace)" % d)
    return 0


class _NullRep:
    samples = None

    def violation(self, *a, **k):
        pass


import contextlib


@contextlib.contextmanager
def _patch_cycles_schema(gset, fn):
    import voluptuous as vol

    """the `cycles` schema closes over globalSettings._isMonotonicIncreasing when the settings are defined: swap the
    function object inside the voluptuous All of every newly defined `cycles` setting"""
    orig = gset.defineSettings

    def define():
        out = orig()
        for s in out:
            if getattr(s, "name", "") == "cycles":
                inner = s._customSchema.schema[0].validators[0]          # the dict of the All(dict, mutuallyExclusive)
                allv = inner["cumulative days"]
                allv.validators = (allv.validators[0], fn)
                s._customSchema = vol.Schema(s._customSchema.schema)  # compile again: the closures held the old function
                s._setSchema()
        return out

    gset.defineSettings = define
    try:
        yield
    finally:
        gset.defineSettings = orig


def selftest():
    """In-process mutants of the anchored code; each must produce a violation key the tree under test does not produce.
    (TLC artefacts -- cases, graphs -- are computed once; every mutant re-runs the real-code side and the trace validation.)"""
    global _SELFTEST
    import voluptuous as vol

    from harness.report import Report
    from harness.selftest import patched, run_mutants

    _settings_cls()
    from armi.physics.neutronics import crossSectionSettings as xss
    from armi.settings import caseSettings, setting, settingsIO
    from armi.utils.customExceptions import NonexistentSetting

    _SELFTEST = True
    S, W, R, CS = setting.Setting, settingsIO.SettingsWriter, settingsIO.SettingsReader, caseSettings.Settings

    def detect():
        rep = Report("C17", "quick", 0)
        run(rep, "quick", 0)
        return [v["key"] for v in rep.violations]

    def setvalue_store_first(self, val):
        self._value = val
        val = self.schema(val)
        self._value = self._load(val)

    orig_data = W._getSettingDataToWrite

    def write_short_as_full(self):
        st, self.style = self.style, ("full" if self.style == "short" else self.style)
        try:
            return orig_data(self)
        finally:
            self.style = st

    def write_short_by_truthiness(self):
        data = orig_data(self)
        if self.style == "short":
            for k in [k for k in data if not k.value and k.name != "versions"]:
                del data[k]
        return data

    def write_medium_as_short(self):
        st, self.style = self.style, ("short" if self.style == "medium" else self.style)
        try:
            return orig_data(self)
        finally:
            self.style = st

    def apply_swallow_invalid(self, name, val):
        if name not in self.cs:
            self.invalidSettings.add(name)
            return
        try:
            self.cs[name] = val
        except vol.Invalid:
            self.invalidSettings.add(name)

    orig_ready = R._readYaml

    def read_resets_first(self, stream):
        self.cs.revertToDefaults()
        return orig_ready(self, stream)

    def duplicate_shallow(self):
        return copy.copy(self)

    orig_copy = S.__copy__

    def copy_shares_value(self):
        c = orig_copy(self)
        c._value = self._value
        return c

    orig_setstate = CS.__setstate__

    def setstate_defaults(self, state):
        orig_setstate(self, state)
        for s in dict(self.items()).values():
            if isinstance(s.value, (int, float)) and not isinstance(s.value, bool):
                s._value = copy.deepcopy(s.default)

    def flags_dump_raw(self):
        return list(self.value)

    def setschema_ignores_enforced(self):
        schema = self._customSchema
        if schema:
            self.schema = schema
        elif isinstance(self.default, list) and self.default:
            self.schema = vol.Schema([vol.Coerce(type(self.default[0]))])
        else:
            self.schema = vol.Schema(vol.Coerce(type(self.default)))

    def setschema_no_element_type(self):
        schema = self._customSchema
        if schema:
            self.schema = schema
        elif self.options and self.enforcedOptions:
            self.schema = vol.Schema(vol.In(self.options))
        else:
            self.schema = vol.Schema(vol.Coerce(type(self.default)))

    def xs_dump_drops(self):
        out = xss.serializeXSSettings(self._value)
        return {k: {a: b for a, b in v.items() if a != "geometry"} for k, v in out.items()}

    def modified_in_place(self, caseTitle=None, newSettings=None):
        for k, v in (newSettings or {}).items():
            self[k] = v
        return self.duplicate()

    SS = "_Settings__settings"

    def _modified_variant(obj_to_self=False, newkey_to_self=False, title_to_self=False):
        def modified(self, caseTitle=None, newSettings=None):
            new = self.duplicate()
            if caseTitle:
                (self if title_to_self else new).caseTitle = caseTitle
            for key, val in (newSettings or {}).items():
                if isinstance(val, S):
                    getattr(self if obj_to_self else new, SS)[key] = copy.copy(val)
                elif key in getattr(new, SS):
                    getattr(new, SS)[key].setValue(val)
                else:
                    getattr(self if newkey_to_self else new, SS)[key] = S(key, val, description="Description from cs.modified()")
            return new
        return modified

    def xs_serialize_drops_empty(self):
        return {key: val for key, val in self if key != "xsID" and val not in (None, "", [])}

    def xs_serialize_drops_falsy(self):
        return {key: val for key, val in self if key != "xsID" and val}

    from armi import apps as armi_apps
    from armi import settings as armi_settings
    from armi.settings import fwSettings

    def _getsettings_variant(cached_default_value_only=False, direct_default_value_only=False, cached_options_dropped=False):
        """App.getSettings with one branch of the modifier merge broken"""
        def getSettings(self):
            defs = {st.name: st for st in fwSettings.getFrameworkSettings()}
            ocache, dcache = collections.defaultdict(list), {}
            for lst in self._pm.hook.defineSettings():
                for it in lst:
                    if isinstance(it, armi_settings.Setting):
                        defs[it.name] = it
                        if it.name in ocache:
                            opts = ocache.pop(it.name)
                            if not cached_options_dropped:
                                it.addOptions(opts)
                        if it.name in dcache:
                            d = dcache.pop(it.name)
                            if cached_default_value_only:
                                it.value = d.value
                            else:
                                it.changeDefault(d)
                    elif isinstance(it, armi_settings.Option):
                        if it.settingName in defs:
                            defs[it.settingName].addOption(it)
                        else:
                            ocache[it.settingName].append(it)
                    elif isinstance(it, armi_settings.Default):
                        if it.settingName in defs:
                            if direct_default_value_only:
                                defs[it.settingName].value = it.value
                            else:
                                defs[it.settingName].changeDefault(it)
                        else:
                            dcache[it.settingName] = it
            return defs
        return getSettings

    def addoptions_schema_first(self, options):
        self._setSchema()
        self.options.extend([o.option for o in options])

    orig_rename = settingsIO.SettingRenamer.renameSetting

    def rename_active_first(self, name):
        active = self._activeRenames.get(name, None)
        if active is not None:
            return active, True
        return orig_rename(self, name)

    orig_reader_init = R.__init__
    shared = {}

    def reader_shared_renamer(self, cs):
        orig_reader_init(self, cs)
        if "r" not in shared:
            shared["r"] = self._renamer
        self._renamer = shared["r"]

    orig_pre = W._preprocessYaml

    def no_stamp(self, settingData):
        y = orig_pre(self, settingData)
        y["settings"]["versions"].pop("armi", None)
        return y

    def setitem_ignores_unknown(self, key, val):
        s = dict(self.items()).get(key)
        if s is not None:
            s.setValue(val)

    def getsetting_live(self, key, default=None):
        s = dict(self.items()).get(key)
        if s is None:
            raise NonexistentSetting(key)
        return s

    def revert_aliases_default(self):
        self._value = self.default

    orig_ren = settingsIO.SettingRenamer.__init__

    def renamer_ignores_expiry(self, settings):
        class _S:
            def __init__(self, s):
                self.oldNames = [(o, None) for o, _e in s.oldNames]
        orig_ren(self, {k: _S(v) for k, v in settings.items()})

    def isdefault_identity(self):
        return self.value is self.default

    from armi.settings.fwSettings import globalSettings as gset

    def monotonic_not_strict(inputList):
        if all(x <= y for x, y in zip(inputList, inputList[1:])):
            return inputList
        raise vol.error.Invalid("not monotonic")

    monotonic_not_strict.__name__ = monotonic_not_strict.__qualname__ = "_isMonotonicIncreasing"

    def xs_validate_never_raises(self):
        return None

    P = patched
    mutants = [
        ("Setting.setValue stores before it validates", lambda: P(S, "setValue", setvalue_store_first)),
        ("writer: short style writes every setting", lambda: P(W, "_getSettingDataToWrite", write_short_as_full)),
        ("writer: short style omits falsy values instead of defaults", lambda: P(W, "_getSettingDataToWrite", write_short_by_truthiness)),
        ("writer: medium style forgets the user's settings", lambda: P(W, "_getSettingDataToWrite", write_medium_as_short)),
        ("writer: no armi version stamp", lambda: P(W, "_preprocessYaml", no_stamp)),
        ("reader: refused values are swallowed as 'invalid settings'", lambda: P(R, "_applySettings", apply_swallow_invalid)),
        ("reader: resets the object before applying (no overlay)", lambda: P(R, "_readYaml", read_resets_first)),
        ("Settings.duplicate is a shallow copy", lambda: P(CS, "duplicate", duplicate_shallow)),
        ("Setting.__copy__ shares the value object", lambda: P(S, "__copy__", copy_shares_value)),
        ("Settings.__setstate__ loses numeric values", lambda: P(CS, "__setstate__", setstate_defaults)),
        ("Settings.modified changes the original", lambda: P(CS, "modified", modified_in_place)),
        ("seed 1: modified() stores a Setting-object change in the original", lambda: P(CS, "modified", _modified_variant(obj_to_self=True))),
        ("Settings.modified: new-key form adds the setting to the original", lambda: P(CS, "modified", _modified_variant(newkey_to_self=True))),
        ("Settings.modified: case-title form renames the original", lambda: P(CS, "modified", _modified_variant(title_to_self=True))),
        ("seed 5: XSModelingOptions.serialize drops '' and [] fields", lambda: P(xss.XSModelingOptions, "serialize", xs_serialize_drops_empty)),
        ("XSModelingOptions.serialize drops every falsy field", lambda: P(xss.XSModelingOptions, "serialize", xs_serialize_drops_falsy)),
        ("round 2 seed 1: a cached plugin Default only sets the value", lambda: P(armi_apps.App, "getSettings", _getsettings_variant(cached_default_value_only=True))),
        ("App.getSettings: a directly applied plugin Default only sets the value", lambda: P(armi_apps.App, "getSettings", _getsettings_variant(direct_default_value_only=True))),
        ("App.getSettings: cached plugin Options are dropped", lambda: P(armi_apps.App, "getSettings", _getsettings_variant(cached_options_dropped=True))),
        ("round 2 seed 3: one SettingRenamer shared by all readers, never rebuilt", lambda: P(R, "__init__", reader_shared_renamer)),
        ("round 3 seed 2: Setting.addOptions derives the schema before it extends the list", lambda: P(S, "addOptions", addoptions_schema_first)),
        ("round 3 seed 3: renameSetting looks at the old names before the current names", lambda: P(settingsIO.SettingRenamer, "renameSetting", rename_active_first)),
        ("Settings.getSetting hands out the live Setting", lambda: P(CS, "getSetting", getsetting_live)),
        ("Settings.__setitem__ ignores unknown names", lambda: P(CS, "__setitem__", setitem_ignores_unknown)),
        ("FlagListSetting.dump returns Flags, not names", lambda: P(setting.FlagListSetting, "dump", flags_dump_raw)),
        ("XSSettingDef.dump drops the geometry", lambda: P(xss.XSSettingDef, "dump", xs_dump_drops)),
        ("Setting._setSchema ignores enforcedOptions", lambda: P(S, "_setSchema", setschema_ignores_enforced)),
        ("Setting._setSchema: no element type for list defaults", lambda: P(S, "_setSchema", setschema_no_element_type)),
        ("Setting.isDefault by identity", lambda: P(S, "isDefault", isdefault_identity)),
        ("cycles: cumulative days need not increase strictly", lambda: _patch_cycles_schema(gset, monotonic_not_strict)),
        ("XSModelingOptions.validate never refuses", lambda: P(xss.XSModelingOptions, "validate", xs_validate_never_raises)),
        ("SettingRenamer ignores expiry dates", lambda: P(settingsIO.SettingRenamer, "__init__", renamer_ignores_expiry)),
        ("Setting.revertToDefault aliases the default", lambda: P(S, "revertToDefault", revert_aliases_default)),
    ]
    try:
        return run_mutants(mutants, detect)
    finally:
        _SELFTEST = False
