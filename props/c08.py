"""C08 -- grid symmetry and rotation operations agree with the physical geometry.

Three specifications under spec/grid (SymLattice.tla holds the shared lattice operators):
  HexSymmetry    third-core equivalents / first-third membership / symmetry lines / rotateIndex / getIndexOfRotatedCell
  CartSymmetry   quarter-core equivalents and domain, with and without a centre cell, periodic and reflective, square and
                 rectangular cells, fresh grids and grids after changePitch (real coordinates of every reported equivalent)
  BlockRotation  HexBlock.rotate / HexAssembly.rotate: children, pins, corner/edge data, displacement, orientation

For each: exhaustive TLC run (laws proved in-spec over the small domain), then spec -> code: every case / edge TLC
printed is executed once on the real functions / real objects and compared with the value TLC computed from the
GEOMETRIC definitions; and code -> spec: seeded random histories of the real code validated by TLC.
The adapters only build, apply, project and compare (coordinates are projected to lattice units, see UNIT_TOL).
"""
import concurrent.futures
import copy
import json
import math
import os
import random

from harness import common, tlc, tracecheck
from harness import replay as rp
from harness.armi_env import armi_ready

MODDIR = os.path.join(common.SPEC, "grid")

# A real coordinate divided by the lattice unit must be an integer: it is snapped when closer than this (a handful of
# double operations on numbers of magnitude <= ~50 lattice units; rotation matrices accumulate ~1e-15 per step).
UNIT_TOL = 1e-9
HEX_PITCHES = (1.0, 16.79)
CART_UNIT = 1.26            # cm per length unit of CartSymmetry (cells are w x h units)
SQ3 = math.sqrt(3.0)

K_ASSEMBLY_REFUSAL = "HexAssembly.rotate:refuses-multiple-of-60-degrees"


def snap(v):
    """coordinate / unit -> int when it is one (within UNIT_TOL), else the float itself (so that a mismatch shows)"""
    v = float(v)
    r = round(v)
    return int(r) if abs(v - r) <= UNIT_TOL * max(1.0, abs(v)) else v


def hex_units(pitch, o):
    """lattice units (ux, uy) of SymXY: flats up (side/2, pitch/2); corners up (pitch/2, side/2)"""
    side = pitch / SQ3
    return (side / 2.0, pitch / 2.0) if o == "flat" else (pitch / 2.0, side / 2.0)


def lat(xy, units):
    return [snap(xy[0] / units[0]), snap(xy[1] / units[1])]


def tup(seq):
    return [[int(a) for a in x[:2]] for x in seq]


class Collector:
    """violations are keyed by call site / input class; every case is still executed"""

    def __init__(self, rep):
        self.rep = rep
        self.n = 0
        self.bad = 0

    def check(self, key, exp, got, what, payload):
        self.n += 1
        if exp != got:
            self.bad += 1
            p = dict(payload)
            p.update({"expected": exp, "observed": got, "direction": "case"})
            self.rep.violation(key, "%s: expected %s, observed %s (%s)" % (
                what, json.dumps(exp), json.dumps(got, default=str), json.dumps(payload.get("case"))), p)
            return False
        return True


# ------------------------------------------------------------------------------------------------------------
# hexagonal part
# ------------------------------------------------------------------------------------------------------------
HEX_DZ = 2.5      # axial step of the hex grids (cm): z of a location = kz * HEX_DZ
# the spellings of the symmetry a grid is made with (SymmetryType.fromStr: case-insensitive, "core" / "assembly" ignored)
HEX_SPELL = {"third periodic": {"canonical": "third periodic", "title": "Third Core Periodic", "upper": "THIRD PERIODIC",
                                "short": "third"},
             "full": {"canonical": "full", "title": "Full Core", "upper": "FULL", "short": " full "}}


def make_hex_grid(grids, pitch, nrings, corner, symmetry):
    """fromPitch, plus an axial unit step so that locations with k != 0 have a z of their own (built through reduce())"""
    g0 = grids.HexGrid.fromPitch(pitch, numRings=nrings + 1, cornersUp=corner, symmetry=symmetry)
    red = list(g0.reduce())
    steps = [list(r) for r in red[0]]
    steps[2] = [0.0, 0.0, HEX_DZ]
    red[0] = tuple(tuple(r) for r in steps)
    red[2] = (red[2][0], red[2][1], (0, 3))
    g = grids.HexGrid(*red)
    if g.cornersUp != corner or abs(g.pitch - pitch) > 1e-12 * pitch:
        raise tlc.MachineryError("hex grid fixture lost its orientation / pitch")
    return g


class HexWorld:
    def __init__(self, nrings):
        armi_ready()
        from armi.reactor import grids
        from armi.utils import hexagon

        self.grids, self.hexagon, self.nrings = grids, hexagon, nrings
        self.cache = {}

    def grid(self, o, pitch, sym, sp="canonical"):
        key = (o, pitch, sym, sp)
        if key not in self.cache:
            self.cache[key] = make_hex_grid(self.grids, pitch, self.nrings, o == "corner", HEX_SPELL[sym][sp])
        return self.cache[key]


def hex_state_case(hw, o, c, obs, col, sp="canonical"):
    i, j = c
    case = {"o": o, "c": c, "sp": sp}
    pl = {"case": case, "kind": "hex-state"}
    for pitch in HEX_PITCHES:
        g = hw.grid(o, pitch, "third periodic", sp)
        u = hex_units(pitch, o)
        col.check("hex:getCoordinates:" + o, obs["xy"], lat(g.getCoordinates((i, j, 0)), u),
                  "cell centre in lattice units (pitch %s)" % pitch, pl)
    g = hw.grid(o, HEX_PITCHES[0], "third periodic", sp)
    gf = hw.grid(o, HEX_PITCHES[0], "full", sp)
    loc = g[i, j, 0]
    eq = tup(g.getSymmetricEquivalents((i, j, 0)))
    col.check("hex:getSymmetricEquivalents:set", obs["equivSet"], sorted(eq),
              "third-core equivalents = images under 120/240 degree rotation", pl)
    col.check("hex:getSymmetricEquivalents:order", obs["equivSeq"], eq,
              "third-core equivalents listed as <<R120 c, R240 c>>", pl)
    col.check("hex:IndexLocation.getSymmetricEquivalents", obs["equivSet"], sorted(tup(loc.getSymmetricEquivalents())),
              "equivalents through the locator", pl)
    col.check("hex:getSymmetricEquivalents:full", [], tup(gf.getSymmetricEquivalents((i, j, 0))),
              "full core has no equivalents", pl)
    col.check("hex:locatorInDomain", obs["inDomain"], bool(g.locatorInDomain(loc)), "locatorInDomain = closed-open sector", pl)
    col.check("hex:locatorInDomain:overlap", obs["inDomainOverlap"], bool(g.locatorInDomain(loc, symmetryOverlap=True)),
              "locatorInDomain(symmetryOverlap) = closed sector", pl)
    col.check("hex:isInFirstThird", [obs["inDomain"], obs["inDomainOverlap"]],
              [bool(g.isInFirstThird(loc)), bool(g.isInFirstThird(loc, includeTopEdge=True))], "isInFirstThird", pl)
    col.check("hex:locatorInDomain:full", True, bool(gf.locatorInDomain(gf[i, j, 0])), "full core: everything in domain", pl)
    line = g.overlapsWhichSymmetryLine((i, j))
    col.check("hex:overlapsWhichSymmetryLine", obs["line"], 0 if line is None else int(line),
              "symmetry line of the cell centre (1=0deg 2=60deg 3=120deg 4=centre 0=none)", pl)
    col.check("hex:getRingPos", [obs["ring"], obs["pos"]], [int(x) for x in g.getRingPos((i, j, 0))], "ring / position", pl)
    got = []
    for k in range(6):
        try:
            got.append(int(hw.hexagon.getIndexOfRotatedCell(obs["num"], k)))
        except Exception as ex:  # a refusal inside the documented domain is a wrong answer
            got.append(type(ex).__name__)
    col.check("hex:getIndexOfRotatedCell", obs["rotnum"], got, "cell number after k=0..5 rotations", pl)
    orbit = [list(c)] + eq
    indom = sorted(d for d in orbit if g.locatorInDomain(g[d[0], d[1], 0]))
    col.check("hex:orbit-one-in-domain", obs["orbitInDomain"], indom, "members of the reported orbit inside the modelled third", pl)


def hex_edge_case(hw, e, col):
    st = e["from"]
    o, c, k, kz, sp = st["o"], st["c"], e["act"]["k"], st.get("kz", 0), st.get("sp", "canonical")
    exp = e["obs"]
    pl = {"case": {"o": o, "c": c, "k": k, "kz": kz, "sp": sp}, "kind": "hex-rotate"}
    G = hw.grids
    for pitch in HEX_PITCHES:
        g = hw.grid(o, pitch, "full", sp)
        u = hex_units(pitch, o)
        new = g.rotateIndex(G.IndexLocation(c[0], c[1], kz, g), k)
        xyz = new.getLocalCoordinates()
        got = {"c": [int(new.i), int(new.j)] if new.grid is g else [int(new.i), int(new.j), "other grid"],
               "xy": lat(xyz, u), "ring": int(g.getRingPos(new.indices)[0]), "kz": int(new.k), "z": snap(xyz[2] / HEX_DZ)}
        col.check("hex:rotateIndex", exp, got,
                  "rotateIndex(k): cell, centre turned by k*60 degrees ccw, ring, axial index and z kept (pitch %s)" % pitch, pl)
    g = hw.grid(o, HEX_PITCHES[0], "third periodic", sp)
    new = g.rotateIndex(G.IndexLocation(c[0], c[1], kz, None), k)
    col.check("hex:rotateIndex:gridless", exp["c"] + [exp["kz"]], [int(new.i), int(new.j), int(new.k)],
              "rotateIndex of a location without grid", pl)


def run_hex(rep, thorough, seed, mc=True):
    sfx = "_thorough" if thorough else ""
    if mc:
        res = tlc.run("HexSymmetry_mc", "HexSymmetry_mc%s.cfg" % sfx, MODDIR, want_prints=False, timeout=2400)
        rep.add_tlc("hex-exhaustive:HexSymmetry_mc%s.cfg" % sfx, res)
        verdict(rep, res, "HexSymmetry")
        need_actions(res, ["RotateB"])
    eres = tlc.run("HexSymmetry_mc", "HexSymmetry_emit%s.cfg" % sfx, MODDIR, workers=1, coverage=False, timeout=2400)
    rep.add_tlc("hex-cases:HexSymmetry_emit%s.cfg" % sfx, eres)
    states = [p for p in eres.prints if isinstance(p, dict) and "st" in p]
    edges = [p for p in eres.prints if isinstance(p, dict) and "act" in p]
    if not states or not edges:
        raise tlc.MachineryError("HexSymmetry emitted no cases")
    nr = max(max(abs(s["st"]["c"][0]), abs(s["st"]["c"][1])) for s in states) + 1
    return {"states": states, "edges": edges, "nrings": nr}


def check_hex(rep, data):
    hw = HexWorld(data["nrings"])
    col = Collector(rep)
    seen = set()
    for s in data["states"]:
        key = (s["st"]["o"], tuple(s["st"]["c"]))
        if key in seen:
            continue
        seen.add(key)
        hex_state_case(hw, s["st"]["o"], s["st"]["c"], s["obs"], col, s["st"].get("sp", "canonical"))
    n_states = len(seen)
    for e in data["edges"]:
        hex_edge_case(hw, e, col)
    nontriv = sum(1 for e in data["edges"] if e["from"]["c"] != e["to"]["c"])
    rep.add_replay("hex-cells", n_states, n_states,
                   "one real evaluation of every query (equivalents, domain, line, ring/pos, rotated cell numbers, "
                   "coordinates) per (orientation, cell) against TLC's geometric value")
    rep.add_replay("hex-rotateIndex-edges", len(data["edges"]), nontriv,
                   "every Rotate(k) edge: rotateIndex on a real grid, resulting cell, coordinates and ring compared; "
                   "non-trivial = the cell moves")
    if data["states"]:
        rep.sample({"kind": "hex-state", "st": data["states"][len(data["states"]) // 3]["st"],
                    "expected": data["states"][len(data["states"]) // 3]["obs"]})
        rep.sample({"kind": "hex-rotate", "edge": {k: data["edges"][len(data["edges"]) // 2][k] for k in ("from", "act", "obs")}})
    return col


def hex_traces(ntraces, nev, seed, nrings=13):
    armi_ready()
    from armi.reactor import grids

    rng = random.Random(seed * 104729 + 8)
    out = []
    gs = {}
    for o in ("flat", "corner"):
        for pitch in HEX_PITCHES:
            gs[o, pitch] = make_hex_grid(grids, pitch, nrings, o == "corner", "")
    for t in range(ntraces):
        o = rng.choice(["flat", "corner"])
        pitch = rng.choice(HEX_PITCHES)
        g = gs[o, pitch]
        u = hex_units(pitch, o)
        while True:
            i, j = rng.randint(-nrings, nrings), rng.randint(-nrings, nrings)
            if max(abs(i), abs(j), abs(i + j)) <= nrings:
                break
        kz0 = rng.randint(0, 2)
        loc = grids.IndexLocation(i, j, kz0, g)
        ev = []
        for _ in range(nev):
            k = rng.choice([rng.randint(-13, 13), rng.randint(-13, 13), rng.randint(-100000, 100000)])
            loc = g.rotateIndex(loc, k)
            xyz = loc.getLocalCoordinates()
            xy = [v if isinstance(v, int) else 777777 for v in lat(xyz, u)]
            z = snap(xyz[2] / HEX_DZ)
            ev.append({"a": {"n": "Rotate", "k": k},
                       "post": {"c": [int(loc.i), int(loc.j)], "xy": xy, "kz": int(loc.k), "z": z if isinstance(z, int) else 777777}})
        out.append({"id": "h%d" % t, "o": o, "c0": [i, j], "kz0": kz0, "ev": ev})
    return out


# ------------------------------------------------------------------------------------------------------------
# Cartesian part
# ------------------------------------------------------------------------------------------------------------
class CartWorld:
    """real CartesianGrids: built by fromRectangle with the pitch of a chain's first entry, then changePitch along the chain"""

    def __init__(self, r):
        armi_ready()
        from armi.reactor import grids

        self.grids, self.r = grids, r
        self.cache = {}

    @staticmethod
    def spelled(th, bc, sp):
        """the symmetry string the grid is made with: canonical (= str(SymmetryType)), Title Case with the optional words, UPPER
        CASE, and a short / padded mixed-case form"""
        base = {"periodic": "quarter periodic", "reflective": "quarter reflective", "full": "full"}[bc]
        if sp == "canonical":
            return base + (" through center" if th else "")
        if sp == "title":
            t = {"periodic": "Quarter Core Periodic", "reflective": "Quarter Core Reflective", "full": "Full Core"}[bc]
            return t + (" Through Center Assembly" if th else "")
        if sp == "upper":
            return (base + (" through center assembly" if th else "")).upper()
        t = {"periodic": " quarter Core Periodic", "reflective": "Quarter", "full": " Full "}[bc]    # "quarter" alone = reflective
        return t + (" Through center " if th else "")

    def grid(self, th, bc, chain, sp="canonical"):
        """chain = ((w0,h0), (w1,h1), ...) in whole length units"""
        key = (th, bc, tuple(tuple(p) for p in chain), sp)
        if key not in self.cache:
            w, h = key[2][0]
            # gridBlueprint: isOffset = not isThroughCenterAssembly
            g = self.grids.CartesianGrid.fromRectangle(w * CART_UNIT, h * CART_UNIT, numRings=self.r + 2,
                                                       symmetry=self.spelled(th, bc, sp), isOffset=not th)
            for w, h in key[2][1:]:
                g.changePitch(w * CART_UNIT, h * CART_UNIT)
            self.cache[key] = g
        return self.cache[key]


CART_HALF = (CART_UNIT / 2.0, CART_UNIT / 2.0)   # the spec's real coordinates are in half length units


def cart_state_case(g, st, obs, col, how="", chain=None):
    """all queries of one (th, bc, cell, pitch) on the grid g (fresh, or reached through changePitch: how = ':afterChangePitch')"""
    th, bc, c = st["th"], st["bc"], st["c"]
    i, j = c
    pl = {"case": st, "kind": "cart-state", "pitch_history": [list(p) for p in (chain or (st["pitch"],))]}
    shape = "square" if st["pitch"][0] == st["pitch"][1] else "rect"
    tag = "%s:%s%s" % (bc, "centre" if th else "split", how)
    col.check("cart:getCoordinates:%s:%s%s" % ("centre" if th else "split", shape, how), obs["xy"],
              lat(g.getCoordinates((i, j, 0)), CART_HALF), "real cell centre (half length units)", pl)
    eq = tup(g.getSymmetricEquivalents((i, j)))
    col.check("cart:getSymmetricEquivalents:" + tag, obs["equivSet"], sorted(eq),
              "quarter-core equivalents = images under the symmetry group, each once", pl)
    col.check("cart:equivalent-coordinates:%s:%s" % (tag, shape), obs["equivXY"],
              [lat(g.getCoordinates((d[0], d[1], 0)), CART_HALF) for d in sorted(eq)],
              "real centres of the reported equivalents = images of the real cell centre under the group", pl)
    loc = g[i, j, 0]
    col.check("cart:locatorInDomain:" + tag, obs["inDomain"], bool(g.locatorInDomain(loc)), "locatorInDomain = closed quadrant", pl)
    if bc != "full":
        orbit = [list(c)] + eq
        cnt = sum(1 for d in orbit if g.locatorInDomain(g[d[0], d[1], 0]))
        col.check("cart:orbit-in-domain:" + tag, obs["inDomainCount"], cnt,
                  "members of the reported orbit inside the modelled quarter", pl)


def cart_edge_case(cw, e, col):
    st, gname = e["from"], e["act"]["g"]
    th, bc, c = st["th"], st["bc"], st["c"]
    pl = {"case": {"from": st, "g": gname}, "kind": "cart-apply"}
    g = cw.grid(th, bc, (st["pitch"],), st.get("sp", "canonical"))
    orbit = sorted([list(c)] + tup(g.getSymmetricEquivalents((c[0], c[1]))))
    tgt = e["obs"]["c"]
    col.check("cart:generator-image-is-equivalent:%s" % bc, True, tgt in orbit,
              "the image of the cell under a generator of the group is the cell or one of its equivalents", pl)
    col.check("cart:generator-image-coordinates", e["obs"]["xy"], lat(g.getCoordinates((tgt[0], tgt[1], 0)), CART_HALF),
              "real centre of the image cell = generator applied to the real cell centre", pl)
    orbit2 = sorted([list(tgt)] + tup(g.getSymmetricEquivalents((tgt[0], tgt[1]))))
    col.check("cart:orbit-stable:%s" % bc, orbit, orbit2, "the image reports the same orbit", pl)


def run_cart(rep, thorough, mc=True):
    sfx = "_thorough" if thorough else ""
    if mc:
        res = tlc.run("CartSymmetry_mc", "CartSymmetry_mc%s.cfg" % sfx, MODDIR, want_prints=False, timeout=1200)
        rep.add_tlc("cart-exhaustive:CartSymmetry_mc%s.cfg" % sfx, res)
        verdict(rep, res, "CartSymmetry")
        need_actions(res, ["ApplyB", "ChangePitchB"])
    eres = tlc.run("CartSymmetry_mc", "CartSymmetry_emit%s.cfg" % sfx, MODDIR, workers=1, coverage=False, timeout=1200)
    rep.add_tlc("cart-cases:CartSymmetry_emit%s.cfg" % sfx, eres)
    states = [p for p in eres.prints if isinstance(p, dict) and "st" in p]
    edges = [p for p in eres.prints if isinstance(p, dict) and "act" in p]
    if not states or not edges:
        raise tlc.MachineryError("CartSymmetry emitted no cases")
    r = max(max(abs(s["st"]["c"][0]), abs(s["st"]["c"][1])) for s in states)
    return {"states": states, "edges": edges, "r": r}


def check_cart(rep, data, two_steps=True):
    cw = CartWorld(data["r"])
    col = Collector(rep)
    obs_of = {}
    for s in data["states"]:
        obs_of.setdefault(rp.skey(s["st"]), s)
    # 1. freshly built grids
    for s in obs_of.values():
        st = s["st"]
        cart_state_case(cw.grid(st["th"], st["bc"], (st["pitch"],), st.get("sp", "canonical")), st, s["obs"], col)
    # 2. generator steps
    gen_edges = [e for e in data["edges"] if e["act"]["n"] == "Apply"]
    for e in gen_edges:
        cart_edge_case(cw, e, col)
    # 3. ChangePitch edges, and two of them in a row: every query of the TARGET state on the grid that got there by changePitch
    steps = {}
    for e in data["edges"]:
        if e["act"]["n"] == "ChangePitch":
            steps.setdefault((e["from"]["th"], e["from"]["bc"], tuple(e["from"]["pitch"])), set()).add(tuple(e["to"]["pitch"]))
    chains = []
    for (th, bc, p0), nxt in sorted(steps.items()):
        for p1 in sorted(nxt):
            chains.append((th, bc, (p0, p1)))
            for p2 in sorted(steps.get((th, bc, p1), ())) if two_steps else ():
                chains.append((th, bc, (p0, p1, p2)))
    by_grid = {}
    for s in obs_of.values():
        st = s["st"]
        by_grid.setdefault((st["th"], st["bc"], tuple(st["pitch"])), []).append(s)
    n_cp = 0
    for th, bc, chain in chains:
        for s in by_grid[th, bc, chain[-1]]:
            g = cw.grid(th, bc, chain, s["st"].get("sp", "canonical"))
            cart_state_case(g, s["st"], s["obs"], col, ":afterChangePitch", chain)
            n_cp += 1
    if not chains:
        raise tlc.MachineryError("CartSymmetry emitted no ChangePitch edges")
    rep.add_replay("cartesian-cells", len(obs_of), sum(1 for s in obs_of.values() if s["obs"]["equivSet"]),
                   "one real evaluation per (centre variant, boundary, cell, cell shape) on a freshly built grid: real "
                   "coordinates, equivalents, real coordinates of the equivalents, domain, orbit count; non-trivial = has equivalents")
    rep.add_replay("cartesian-generator-edges", len(gen_edges), sum(1 for e in gen_edges if e["from"]["c"] != e["to"]["c"]),
                   "every generator step (R90 / MX / MY): the image is reported as equivalent and reports the same orbit")
    rep.add_replay("cartesian-changePitch", n_cp, n_cp,
                   "every ChangePitch edge (thorough: and every two in a row; %d grid histories): all queries of the target state on the "
                   "real grid after changePitch" % len(chains))
    mid = data["states"][len(data["states"]) // 2]
    rep.sample({"kind": "cart-state", "st": mid["st"], "expected": mid["obs"]})
    return col


# ------------------------------------------------------------------------------------------------------------
# block / assembly part
# ------------------------------------------------------------------------------------------------------------
BOUNDARY_PARAMS_MIN = ["THcornTemp", "THedgeTemp", "cornerFastFlux", "pointsCornerDpa", "pointsCornerDpaRate",
                       "pointsCornerFastFluxFr", "pointsEdgeDpa", "pointsEdgeDpaRate", "pointsEdgeFastFluxFr"]
PIN_PITCH = 1.1          # clad od 1.0 + wire od 0.1
FREE_UNIT = 0.07         # free points:  x = X * FREE_UNIT, y = Y * sqrt(3) * FREE_UNIT, z = Z
DISP_UNIT = 0.003        # displacement: dx = X * DISP_UNIT, dy = Y * sqrt(3) * DISP_UNIT
NSLOT = 6


class BlockAdapter:
    name = "hexblock"

    def __init__(self):
        armi_ready()
        import numpy as np
        from armi.reactor import assemblies, blocks, components, grids
        from armi.reactor.flags import Flags
        from armi.reactor.parameters import ParamLocation

        self.np, self.assemblies, self.blocks, self.components, self.grids, self.Flags = np, assemblies, blocks, components, grids, Flags
        b = blocks.HexBlock("probe")
        found = set(b.p.paramDefs.atLocation(ParamLocation.CORNERS).names) | set(b.p.paramDefs.atLocation(ParamLocation.EDGES).names)
        if not set(BOUNDARY_PARAMS_MIN) <= found:
            raise tlc.MachineryError("boundary parameters missing: %s" % sorted(set(BOUNDARY_PARAMS_MIN) - found))
        self.bnames = sorted(found)
        # parameters declared array-valued (setter isNumpyArray) turn an assigned scalar into a 0-d array: a scalar is outside
        # their type, so in the "scalar" variant (di = 2) they carry the six-vector of slot 1 instead of the special value
        self.array_typed = set()
        for name in self.bnames:
            b.p[name] = 7.0
            if isinstance(b.p[name], np.ndarray):
                self.array_typed.add(name)
        self.templates = {}

    # -- fixtures ------------------------------------------------------------------------------------------
    def _circle(self, name, mult, clad):
        """clad: True -> CLAD (a pin), False -> FUEL (counted by getNumPins, not a pin location), or the name of a flag that
        getNumPins does not count ("COOLANT", "MODERATOR", "DUCT": prismatic blocks)"""
        c = self.components.Circle(name, "HT9", Tinput=25.0, Thot=25.0, od=1.0, id=0.8, mult=mult)
        c.p.flags = getattr(self.Flags, clad) if isinstance(clad, str) else (self.Flags.CLAD if clad else self.Flags.FUEL)
        return c

    def _pin_block(self, n, corner):
        C = self.components
        b = self.blocks.HexBlock("pins")
        fuel = C.Circle("fuel", "UZr", Tinput=25.0, Thot=25.0, od=0.8, id=0.0, mult=n)
        clad = C.Circle("clad", "HT9", Tinput=25.0, Thot=25.0, od=1.0, id=0.8, mult=n)
        wire = C.Helix("wire", "HT9", Tinput=25.0, Thot=25.0, od=0.1, id=0.0, axialPitch=30.0, helixDiameter=1.1, mult=n)
        cool = C.DerivedShape("coolant", "Sodium", Tinput=25.0, Thot=25.0)
        duct = C.Hexagon("duct", "HT9", Tinput=25.0, Thot=25.0, ip=16.0, op=16.5, mult=1)
        for c in (fuel, clad, wire, cool, duct):
            b.add(c)
        b.setHeight(10.0)
        # a nested hex grid has the opposite orientation of the system grid
        b.autoCreateSpatialGrids(self.grids.HexGrid.fromPitch(17.0, cornersUp=not corner))
        return b

    def _manual_block(self, lay, corner):
        G = self.grids
        b = self.blocks.HexBlock(lay)
        if lay == "nogrid":
            c1, c2, c3 = self._circle("a", 1, False), self._circle("b", 1, False), self._circle("c", 1, False)
            c2.spatialLocator = None
            for c in (c1, c2, c3):
                b.add(c)
            b.setHeight(10.0)
            return b
        g = G.HexGrid.fromPitch(PIN_PITCH, numRings=0, armiObject=b, cornersUp=corner)
        b.spatialGrid = g

        def multi(cells):
            m = G.MultiIndexLocation(g)
            m.extend([g[i, j, 0] for i, j in cells])
            return m

        def free(x, y, z):
            return G.CoordinateLocation(x * FREE_UNIT, y * SQ3 * FREE_UNIT, float(z), g)

        if lay == "p1":
            kids = [("clad", True, multi([(0, 0)])), ("fuel", False, g[0, 0, 0]), ("duct", False, free(0, 0, 0))]
        elif lay == "singles":
            kids = [("clad1", True, g[1, 0, 0]), ("clad2", True, g[-1, 2, 0]), ("clad3", True, g[2, -1, 0]),
                    ("fuel", False, g[0, -2, 0]), ("duct", False, free(1, 1, 1))]
        elif lay == "mixed":
            kids = [("clad", True, multi([(1, 0), (2, 0), (0, 1), (-2, 1)])), ("clad1", True, g[1, 1, 0]),
                    ("fuel", False, g[0, 0, 0]), ("duct", False, free(-3, 1, 0)), ("liner", False, free(4, -2, 1))]
        elif lay == "prism":
            kids = [("channels", "COOLANT", multi([(1, 0), (-1, 1), (0, -1)])), ("rods", "MODERATOR", multi([(0, 1), (-1, 0), (1, -1)])),
                    ("channel", "COOLANT", g[2, -1, 0]), ("sleeve", "DUCT", free(3, 1, 0)), ("plug", "MODERATOR", free(0, 2, 1))]
        elif lay == "families":
            kids = [("clad", True, multi([(1, 0), (-1, 1), (0, -1)])), ("cladb", True, multi([(0, 1), (-1, 0), (1, -1)])),
                    ("control", False, multi([(2, 0), (-2, 2), (0, -2)])), ("fuel", False, multi([(1, 1), (-2, 1)])),
                    ("duct", False, free(2, 0, 0))]
        else:
            raise tlc.MachineryError("unknown layout " + lay)
        for name, clad, loc in kids:
            c = self._circle(name, len(loc) if isinstance(loc, G.MultiIndexLocation) else 1, clad)
            b.add(c)
            c.spatialLocator = loc
        b.setHeight(10.0)
        return b

    def slot_of(self, idx, di):
        s = (idx + di - 1) % NSLOT + 1
        if s == 3 and di == 2 and self.bnames[idx] in self.array_typed:
            return 1
        return s

    def template(self, cf):
        key = (cf["o"], cf["lay"], cf["di"])
        if key not in self.templates:
            np = self.np
            corner = cf["o"] == "corner"
            lay, di = cf["lay"], cf["di"]
            b = self._pin_block({"p7": 7, "p19": 19}[lay], corner) if lay in ("p7", "p19") else self._manual_block(lay, corner)
            special = {1: [], 2: 7.0, 3: None, 4: [1.0, 2.0, 3.0, 4.0]}[di]
            for idx, name in enumerate(self.bnames):
                s = self.slot_of(idx, di)
                if s == 1:
                    b.p[name] = [11.0, 12.0, 13.0, 14.0, 15.0, 16.0]
                elif s == 2:
                    b.p[name] = np.array([21.0, 22.0, 23.0, 24.0, 25.0, 26.0])
                elif s == 3:
                    b.p[name] = copy.copy(special)
                elif s == 4:
                    b.p[name] = [41, 42, 43, 44, 45, 46] if idx % 2 else np.array([41, 42, 43, 44, 45, 46])
                elif s == 5:      # one vector per corner / edge: 2-D array of shape (6, n)
                    n = (di - 1) % 3 + 1
                    b.p[name] = np.array([[500.0 + 10 * m + g for g in range(1, n + 1)] for m in range(1, 7)])
                else:             # six lists (di odd) / six arrays (di even)
                    rows = [[600.0 + 10 * m + g for g in (1, 2)] for m in range(1, 7)]
                    b.p[name] = rows if di % 2 else [np.array(r) for r in rows]
            disp = {1: (2, 0), 2: (3, -1), 3: None, 4: (-1, 3)}[di]
            if disp is None:
                b.p.displacementX = None
                b.p.displacementY = None
            else:
                b.p.displacementX = disp[0] * DISP_UNIT
                b.p.displacementY = disp[1] * SQ3 * DISP_UNIT
            self.templates[key] = b
        return self.templates[key]

    # -- adapter protocol ----------------------------------------------------------------------------------
    def build(self, root):
        cfgs = root["cfg"]
        a = self.assemblies.HexAssembly("fuel")
        a.spatialGrid = self.grids.AxialGrid.fromNCells(len(cfgs))
        bl = []
        for cf in cfgs:
            b = copy.deepcopy(self.template(cf))
            a.add(b)
            bl.append(b)
        if [x for x in a] != bl:
            raise tlc.MachineryError("assembly did not keep the block order")
        return {"asm": a, "blocks": bl, "cfg": cfgs, "err": ""}

    def apply(self, w, act):
        n = act["n"]
        w["err"] = ""
        try:
            if n == "RotateBlock":
                w["blocks"][act["b"] - 1].rotate(act["k"] * math.pi / 3)
            elif n == "RotateAssembly":
                w["asm"].rotate(act["k"] * math.pi / 3)          # armi's own _rotationNumberToRadians form
            elif n == "RotateAssemblyOffGrid":
                w["asm"].rotate(act["h"] * math.pi / 6)
            else:
                raise AssertionError("unknown action " + n)
        except (ValueError, TypeError, RuntimeError, IndexError, KeyError) as ex:
            w["err"] = type(ex).__name__
        return w["err"]

    def _value(self, v):
        np = self.np
        if v is None:
            return {"kind": "none", "v": []}
        if isinstance(v, np.ndarray) and v.ndim == 0:
            return {"kind": "array0d", "v": [snap(v)]}
        if isinstance(v, (list, np.ndarray)):
            if len(v) and all(isinstance(x, (list, np.ndarray)) for x in v):
                try:
                    return {"kind": "rows", "v": [[snap(y) for y in x] for x in v]}
                except TypeError:
                    return {"kind": "rows:nested", "v": []}
            try:
                return {"kind": "vec", "v": [snap(x) for x in v]}
            except TypeError:
                return {"kind": "vec:ragged", "v": []}
        if isinstance(v, (int, float, np.integer, np.floating)):
            return {"kind": "scalar", "v": [snap(v)]}
        return {"kind": type(v).__name__, "v": []}

    def project_block(self, b, cf):
        G = self.grids
        g = b.spatialGrid
        kids = []
        for c in b:
            sl = c.spatialLocator
            if sl is None:
                kids.append({"t": "none", "cells": [], "xyz": []})
            elif isinstance(sl, G.MultiIndexLocation):
                ok = g is not None and sl.grid is g and all(x.grid is g for x in sl)
                kids.append({"t": "multi" if ok else "multi:wrong-grid", "cells": [self._cell(x) for x in sl], "xyz": []})
            elif isinstance(sl, G.CoordinateLocation):
                x, y, z = sl.getLocalCoordinates()
                ok = sl.grid is g or (cf["lay"] == "nogrid" and sl.grid is None)
                kids.append({"t": "coord" if ok else "coord:wrong-grid", "cells": [],
                             "xyz": [snap(x / FREE_UNIT), snap(y / (SQ3 * FREE_UNIT)), snap(z)]})
            elif isinstance(sl, G.IndexLocation):
                kids.append({"t": "index" if sl.grid is g else "index:wrong-grid", "cells": [self._cell(sl)], "xyz": []})
            else:
                kids.append({"t": type(sl).__name__, "cells": [], "xyz": []})
        pins = [self._cell(x) for x in b.getPinLocations()]
        pc = b.getPinCoordinates()
        if g is not None and len(pc):
            u = hex_units(g.pitch, "corner" if g.cornersUp else "flat")
            pinxy = [lat(p, u) + ([] if snap(p[2]) == 0 else [snap(p[2])]) for p in pc]
        else:
            pinxy = [list(map(float, p)) for p in pc]
        slots = {}
        for idx, name in enumerate(self.bnames):
            slots.setdefault(self.slot_of(idx, cf["di"]), {})[name] = self._value(b.p[name])
        bp = []
        for s in range(1, NSLOT + 1):
            vals = list(slots.get(s, {}).values())
            if not vals:
                raise tlc.MachineryError("no real boundary parameter in slot %d" % s)
            bp.append(vals[0] if all(v == vals[0] for v in vals) else {"kind": "inconsistent", "v": [], "byName": slots[s]})
        dx, dy = b.p.displacementX, b.p.displacementY
        if dx is None and dy is None:
            disp = []
        elif dx is None or dy is None:
            disp = ["half-set"]
        else:
            disp = [snap(dx / DISP_UNIT), snap(dy / (SQ3 * DISP_UNIT))]
        ori = b.p.orientation
        deg = snap(float(ori[2]) % 360.0)
        if deg == 360:
            deg = 0
        if float(ori[0]) != 0.0 or float(ori[1]) != 0.0:
            deg = {"orientation": [float(x) for x in ori]}
        return {"kids": kids, "pins": pins, "pinxy": pinxy, "bp": bp, "disp": disp, "deg": deg, "rotnum": snap(b.getRotationNum())}

    @staticmethod
    def _cell(loc):
        return [int(loc.i), int(loc.j)] if int(loc.k) == 0 else [int(loc.i), int(loc.j), int(loc.k)]

    def project(self, w):
        return {"err": w["err"], "blocks": [self.project_block(b, cf) for b, cf in zip(w["blocks"], w["cfg"])]}


def block_key(d):
    import re
    a = d["action"]
    fd = d["first_difference"]
    if a["n"] == "RotateAssembly" and d.get("observed", {}).get("err") == "ValueError" and d.get("expected", {}).get("err") == "":
        return K_ASSEMBLY_REFUSAL
    path = re.sub(r"\[\d+\]", "", fd.split(":")[0])
    return "block:%s:%s" % (a["n"], path)


def order_edges(edges):
    """BFS tree of the replay prefers small counter-clockwise rotations (paths are prefixes, not the thing under test)"""
    def rank(e):
        a = e["act"]
        k = a.get("k", a.get("h", 0))
        return (e.get("lvl", 9), abs(k), 0 if k >= 0 else 1, a["n"], a.get("b", 0))
    return sorted(edges, key=rank)


def replay_blocks(rep, ad, graph, label, rule, max_edges, rng):
    edges = graph.edges
    if max_edges is not None and len(edges) > max_edges:
        edges = rng.sample(edges, max_edges)
    n = nontriv = 0
    per_key = {}
    init_checked = set()
    for e in edges:
        pre = graph.path.get(e["_fk"])
        if pre is None:
            continue
        root = pre[0]["from"] if pre else e["from"]
        rk = rp.skey(root)
        if rk not in init_checked:
            init_checked.add(rk)
            # the freshly built assembly must be the spec's initial state.  Everything but the pin coordinates is put
            # there by the fixture itself (a mismatch is a broken fixture, not a verdict about armi); the pin coordinates
            # are computed by armi (getPinCoordinates / getLocalCoordinates) from the pin cells: that is a verdict.
            w = ad.build(root)
            got0 = ad.project(w)
            exp0 = dict(graph.obs_of[rk], err="")
            strip_xy = lambda o: dict(o, blocks=[{k: v for k, v in b.items() if k != "pinxy"} for b in o["blocks"]])  # noqa: E731
            d0 = rp.diff(strip_xy(exp0), strip_xy(got0))
            if d0:
                raise tlc.MachineryError("fixture for %s is not the specification's initial state: %s" % (json.dumps(root), d0))
            d0 = rp.diff(exp0, got0)
            if d0:
                rep.violation("block:Init:.blocks.pinxy", "pin coordinates of a freshly built block are not the lattice "
                              "coordinates of its pin cells: %s" % d0,
                              {"direction": "replay", "adapter": ad.name, "root": root, "behaviour": [], "expected": exp0,
                               "observed": got0, "first_difference": d0})
        # prefix: if a step of the path to the source state is itself refused, the edge cannot be exercised from there
        w = ad.build(root)
        blocked = False
        for s in pre:
            if ad.apply(w, s["act"]) != s["err"]:
                blocked = True
                break
        if blocked:
            continue
        if pre and rp.diff(dict(graph.obs_of[e["_fk"]], err=pre[-1]["err"]), ad.project(w)):
            continue    # the source state was not reached: that divergence belongs to (and is reported for) an earlier edge
        ad.apply(w, e["act"])
        got = ad.project(w)
        n += 1
        if e["_fk"] != e["_tk"]:
            nontriv += 1
        d = rp.diff(e["obs"], got)
        if d:
            div = {"diverged_at": len(pre) + 1, "first_difference": d, "root": root,
                   "behaviour": [s["act"] for s in pre] + [e["act"]], "action": e["act"], "expected": e["obs"], "observed": got}
            key = block_key(div)
            per_key[key] = per_key.get(key, 0) + 1
            what = ("HexAssembly.rotate refuses a rotation by a multiple of 60 degrees (k=%s, rad=%r): ValueError"
                    % (e["act"].get("k"), e["act"].get("k", 0) * math.pi / 3)) if key == K_ASSEMBLY_REFUSAL else (
                "real HexBlock/HexAssembly diverges from BlockRotation after %s: %s" % (json.dumps(e["act"]), d))
            rep.violation(key, what, dict(div, direction="replay", adapter=ad.name))
    rep.add_replay(label, n, nontriv, rule)
    return n, per_key


def block_graph(eres):
    obs = {rp.skey(p["st"]): p["obs"] for p in eres.prints if isinstance(p, dict) and "st" in p}
    edges = [p for p in eres.prints if isinstance(p, dict) and "act" in p]
    out = []
    for e in edges:
        o = obs.get(rp.skey(e["to"]))
        if o is None:
            continue
        e["obs"] = {"err": e["err"], "blocks": o["blocks"]}
        out.append(e)
    g = rp.Graph(order_edges(out))
    g.obs_of = obs
    return g


def run_blocks(rep, thorough, mc=True):
    sfx = "_thorough" if thorough else ""
    if mc:
        res = tlc.run("BlockRotation_mc", "BlockRotation_mc%s.cfg" % sfx, MODDIR, want_prints=False, timeout=2400)
        rep.add_tlc("block-exhaustive:BlockRotation_mc%s.cfg" % sfx, res)
        verdict(rep, res, "BlockRotation")
        need_actions(res, ["RotateBlockB", "RotateAssemblyB", "RotateAssemblyOffGridB"])
    graphs = []
    for cfg in ("BlockRotation_emit%s.cfg" % sfx, "BlockRotation_emit_asm%s.cfg" % sfx):
        eres = tlc.run("BlockRotation_mc", cfg, MODDIR, workers=1, coverage=False, timeout=2400)
        rep.add_tlc("block-edges:" + cfg, eres)
        g = block_graph(eres)
        if not g.edges:
            raise tlc.MachineryError("BlockRotation emitted no edges (%s)" % cfg)
        graphs.append((cfg, g))
    return graphs


def check_blocks(rep, graphs, thorough, seed, ad=None):
    ad = ad or BlockAdapter()
    rng = random.Random(seed)
    total = 0
    for cfg, g in graphs:
        n, _ = replay_blocks(
            rep, ad, g, "block-edges:" + cfg,
            "every edge (s,a,t) of TLC's graph is executed as path(s);a on freshly copied real HexBlocks inside a real "
            "HexAssembly and the complete projection (child locators, pins, pin coordinates, all corner/edge parameters, "
            "displacement, orientation, error) compared; non-trivial = the abstract state changes",
            None if thorough else 2400, rng)
        total += n
        e = g.edges[len(g.edges) // 2]
        rep.sample({"kind": "block-edge", "config": cfg, "path": [s["act"] for s in g.path[e["_fk"]]], "act": e["act"],
                    "expected_block_1": {k: e["obs"]["blocks"][0][k] for k in ("pins", "pinxy", "disp", "deg")}})
    return total


# ------------------------------------------------------------------------------------------------------------
# third core -> full core (ThirdCoreHexToFullCoreChanger) as a client of the symmetry / rotation operations
# ------------------------------------------------------------------------------------------------------------
CORE_PITCH = 17.0


class CoreAdapter:
    """a real Reactor/Core on a third-core hex grid, loaded with BlockAdapter assemblies; Grow / Shrink run the real converter"""
    name = "third-to-full"

    def __init__(self, block_adapter):
        armi_ready()
        from armi import settings
        from armi.reactor import blueprints, geometry, grids, reactors
        from armi.reactor.converters import geometryConverters

        self.ba, self.grids, self.reactors, self.blueprints, self.geometry = block_adapter, grids, reactors, blueprints, geometry
        self.gc, self.cs = geometryConverters, settings.Settings()

    def build(self, root):
        if root["sym"] != "third" or any(root["steps"]):
            raise tlc.MachineryError("ThirdToFull root is not an initial state")
        r = self.reactors.Reactor("Reactor", self.blueprints.Blueprints())
        r.add(self.reactors.Core("Core"))
        corner = root["o"] == "corner"
        # the way armi.tests.getEmptyHexReactor sets a third-core grid up; the symmetry is spelled differently per loading
        g = self.grids.HexGrid.fromPitch(CORE_PITCH, cornersUp=corner)
        g.symmetry = list(HEX_SPELL["third periodic"].values())[root["v"] % 4]
        g.geomType = self.geometry.HEX_CORNERS_UP if corner else self.geometry.HEX
        g.armiObject = r.core
        r.core.spatialGrid = g
        cfg_of = {}
        for x, ld in enumerate(root["load"]):
            w = self.ba.build({"cfg": ld["cfg"]})
            a = w["asm"]
            a.setType("load%d" % x)
            cfg_of["load%d" % x] = ld["cfg"]
            r.core.add(a, r.core.spatialGrid[ld["c"][0], ld["c"][1], 0])
        return {"r": r, "cfg_of": cfg_of, "load": root["load"], "changer": self.gc.ThirdCoreHexToFullCoreChanger(self.cs),
                "o": root["o"], "err": ""}

    def apply(self, w, act):
        n = act["n"]
        w["err"] = ""
        try:
            if n == "PreRotate":
                c = w["load"][act["x"] - 1]["c"]
                a = w["r"].core.childrenByLocator[w["r"].core.spatialGrid[c[0], c[1], 0]]
                a.rotate(act["k"] * math.pi / 3)
            elif n == "Grow":
                w["changer"].convert(w["r"])
            elif n == "Shrink":
                w["changer"].restorePreviousGeometry(w["r"])
            else:
                raise AssertionError("unknown action " + n)
        except (ValueError, TypeError, RuntimeError, KeyError, IndexError) as ex:
            w["err"] = type(ex).__name__
        return w["err"]

    def project(self, w):
        core = w["r"].core
        u = hex_units(CORE_PITCH, w["o"])
        out = []
        for a in sorted(core, key=lambda a: (int(a.spatialLocator.i), int(a.spatialLocator.j))):
            cfgs = w["cfg_of"].get(a.getType())
            loc = a.spatialLocator
            if cfgs is None or len(a) != len(cfgs):
                out.append({"c": [int(loc.i), int(loc.j)], "xy": [], "blocks": "unknown assembly %s" % a.getType()})
                continue
            out.append({"c": [int(loc.i), int(loc.j)], "xy": lat(loc.getGlobalCoordinates(), u),
                        "blocks": [self.ba.project_block(b, cf) for b, cf in zip(a, cfgs)]})
        dom = str(core.symmetry.domain)
        return {"err": w["err"], "sym": "full" if core.isFullCore else ("third" if "third" in dom.lower() else dom), "core": out}


def core_key(div):
    import re
    path = re.sub(r"\[\d+\]", "", div["first_difference"].split(":")[0])
    return "core:%s:%s" % (div["action"]["n"], path)


def run_core(rep, thorough):
    cfg = "ThirdToFull_mc%s.cfg" % ("_thorough" if thorough else "")
    res = tlc.run("ThirdToFull_mc", cfg, MODDIR, workers=1, coverage=False, timeout=2400)
    rep.add_tlc("third-to-full (exhaustive + edges):" + cfg, res)
    verdict(rep, res, "ThirdToFull")
    obs = {rp.skey(p["st"]): p["obs"] for p in res.prints if isinstance(p, dict) and "st" in p}
    edges = []
    for e in res.prints:
        if isinstance(e, dict) and "act" in e and rp.skey(e["to"]) in obs:
            e["obs"] = dict(obs[rp.skey(e["to"])], err="")
            e["err"] = ""
            edges.append(e)
    names = {e["act"]["n"] for e in edges}
    if not {"PreRotate", "Grow", "Shrink"} <= names and not res.violation:
        raise tlc.MachineryError("ThirdToFull: actions never taken: %s" % sorted({"PreRotate", "Grow", "Shrink"} - names))
    g = rp.Graph(edges)
    g.obs_of = obs
    return g


def check_core(rep, graph, ba=None):
    ad = CoreAdapter(ba or BlockAdapter())
    n = nontriv = 0
    checked_roots = set()
    done = set()

    def compare(e, pre, w):
        nonlocal n, nontriv
        got = ad.project(w)
        n += 1
        nontriv += e["_fk"] != e["_tk"]
        done.add(id(e))
        d = rp.diff(e["obs"], got)
        if d:
            div = {"diverged_at": len(pre) + 1, "first_difference": d, "root": pre[0]["from"] if pre else e["from"],
                   "behaviour": [s["act"] for s in pre] + [e["act"]], "action": e["act"], "expected": e["obs"], "observed": got}
            rep.violation(core_key(div), "real third-core -> full-core conversion diverges from ThirdToFull after %s: %s" % (
                json.dumps(e["act"]), d), dict(div, direction="replay", adapter=ad.name))
        return not d

    for e in graph.edges:
        if id(e) in done:
            continue
        pre = graph.path.get(e["_fk"])
        if pre is None:
            continue
        root = pre[0]["from"] if pre else e["from"]
        rk = rp.skey(root)
        if rk not in checked_roots:
            checked_roots.add(rk)
            d0 = rp.diff(dict(graph.obs_of[rk], err=""), ad.project(ad.build(root)))
            if d0:
                raise tlc.MachineryError("third-core fixture is not the specification's initial state: %s" % d0)
        w = ad.build(root)
        if any(ad.apply(w, s["act"]) for s in pre):
            continue
        if pre and rp.diff(graph.obs_of[e["_fk"]], ad.project(w)):
            continue     # the source state was not reached: reported for the earlier edge
        ad.apply(w, e["act"])
        ok = compare(e, pre, w)
        # the conversion is expensive: the edge that undoes it is replayed on the same world when that world is its BFS prefix
        if ok and e["act"]["n"] == "Grow":
            for f in graph.succ.get(e["_tk"], ()):
                fpre = graph.path.get(f["_fk"])
                if id(f) not in done and fpre and fpre[-1] is e:
                    ad.apply(w, f["act"])
                    compare(f, fpre, w)
                    break
    rep.add_replay("third-to-full-edges", n, nontriv,
                   "every edge of ThirdToFull (pre-rotation of one assembly, convert, restorePreviousGeometry) on a real core of six "
                   "two-block assemblies: cell, global coordinates and the complete block projection of every assembly compared")
    e = next((x for x in graph.edges if x["act"]["n"] == "Grow"), None)
    if e:
        rep.sample({"kind": "third-to-full", "path": [s["act"] for s in graph.path[e["_fk"]]], "act": e["act"],
                    "expected_cells_and_rotnum": [[a["c"], a["blocks"][0]["rotnum"]] for a in e["obs"]["core"]]})
    return n


LAYOUTS = ["p1", "p7", "p19", "singles", "mixed", "nogrid", "prism", "families"]


def block_traces(ad, ntraces, nev, seed):
    rng = random.Random(seed * 15485863 + 3)
    out = []
    for t in range(ntraces):
        nb = rng.choice([1, 2, 3, 4])
        cfgs = [{"o": rng.choice(["flat", "corner"]), "lay": rng.choice(LAYOUTS), "di": rng.randint(1, 4)} for _ in range(nb)]
        w = ad.build({"cfg": cfgs})
        ev = []
        for _ in range(nev):
            r = rng.random()
            if r < 0.5:
                a = {"n": "RotateBlock", "b": rng.randint(1, nb), "k": rng.randint(-13, 13)}
            elif r < 0.9:
                a = {"n": "RotateAssembly", "k": rng.randint(-13, 13)}
            else:
                a = {"n": "RotateAssemblyOffGrid", "h": 2 * rng.randint(-6, 6) + 1}
            ad.apply(w, a)
            p = ad.project(w)
            ev.append({"a": a, "post": {"err": p["err"], "obs": {"blocks": tlaify(p["blocks"])}}})
            if a["n"] != "RotateAssemblyOffGrid" and p["err"]:
                break    # a legal rotation was refused: the history ends here (TLC rejects it at this very event)
        out.append({"id": "b%d" % t, "cfg": cfgs, "ev": ev})
    return out


def tlaify(x):
    """numbers that did not snap to lattice integers become a sentinel the specification can never produce"""
    if isinstance(x, float):
        return 777777
    if isinstance(x, list):
        return [tlaify(v) for v in x]
    if isinstance(x, dict):
        return {k: tlaify(v) for k, v in x.items()}
    return x


# ------------------------------------------------------------------------------------------------------------
def verdict(rep, res, module):
    if res.violation:
        rep.violation("tlc:%s:%s" % (module, res.violation["name"]),
                      "TLC: %s violated in %s (the transcribed algorithm disagrees with the geometry)" % (res.violation["name"], module),
                      {"direction": "tlc", "trace": res.violation["trace"][:20000]})


def need_actions(res, names):
    never = [a for a in names if res.coverage.get(a, (0, 0))[1] == 0]
    if never and not res.violation:
        raise tlc.MachineryError("vacuous: actions never taken: %s" % never)


def trace_verdicts(rep, bad, what):
    for b in bad:
        ev = b["trace"]["ev"]
        k = b["matched"]
        nxt = ev[k] if k < len(ev) else {}
        a = nxt.get("a", {})
        if a.get("n") == "RotateAssembly" and nxt.get("post", {}).get("err") == "ValueError":
            rep.violation(K_ASSEMBLY_REFUSAL,
                          "HexAssembly.rotate refuses a rotation by a multiple of 60 degrees (k=%s): ValueError" % a.get("k"),
                          {"direction": "trace", "trace": {"id": b["trace"]["id"], "cfg": b["trace"].get("cfg"), "ev": ev[: k + 1]},
                           "matched": k, "mismatch": b.get("mismatch")})
            continue
        rep.violation("trace:%s:%s" % (what, a.get("n", "?")),
                      "recorded history is not a behaviour of %s at event %d (%s)" % (what, k + 1, json.dumps(a)),
                      {"direction": "trace", "trace": {"id": b["trace"]["id"], "cfg": b["trace"].get("cfg"), "o": b["trace"].get("o"),
                                                       "c0": b["trace"].get("c0"), "ev": ev[: k + 1]},
                       "matched": k, "mismatch": b.get("mismatch"), "invariant": b.get("invariant"), "tlc": b.get("tlc")})


def run(rep, tier, seed):
    thorough = tier == "thorough"
    if thorough:   # quick: TLC parses the same modules anyway (a parse error is a MachineryError there too); saves five JVM starts
        for m in ("HexSymmetry_mc", "CartSymmetry_mc", "BlockRotation_mc", "ThirdToFull_mc", "HexSymmetry_trace", "BlockRotation_trace"):
            tlc.sany(m, MODDIR)

    # 1. the three exhaustive TLC runs (16 workers each, one after the other) proceed in a helper thread while the main
    #    thread does 2. (single-worker emission runs + the real code); their verdicts are collected below
    sfx = "_thorough" if thorough else ""
    jobs = [("hex-exhaustive", "HexSymmetry", ["RotateB"]), ("cart-exhaustive", "CartSymmetry", ["ApplyB", "ChangePitchB"]),
            ("block-exhaustive", "BlockRotation", ["RotateBlockB", "RotateAssemblyB", "RotateAssemblyOffGridB"])]

    def exhaustive():
        # quick: the models are small, 4 workers cost a third less CPU than 16 for the same wall time
        return [(lab, mod, acts, tlc.run(mod + "_mc", "%s_mc%s.cfg" % (mod, sfx), MODDIR, want_prints=False, timeout=2400,
                                         workers=None if thorough else 4))
                for lab, mod, acts in jobs]
    pool = concurrent.futures.ThreadPoolExecutor(max_workers=1)
    fut = pool.submit(exhaustive)
    try:
        # 2. spec -> code
        hdata = run_hex(rep, thorough, seed, mc=False)
        check_hex(rep, hdata)
        cdata = run_cart(rep, thorough, mc=False)
        check_cart(rep, cdata, two_steps=thorough)
        graphs = run_blocks(rep, thorough, mc=False)
        ad = BlockAdapter()
        check_blocks(rep, graphs, thorough, seed, ad)
        check_core(rep, run_core(rep, thorough), ad)
        rep.exhaustive = thorough
    finally:
        results = fut.result()      # re-raises a MachineryError of the helper thread
        pool.shutdown()
    for lab, mod, acts, res in results:
        rep.add_tlc("%s:%s_mc%s.cfg" % (lab, mod, sfx), res)
        verdict(rep, res, mod)
        need_actions(res, acts)

    # 3. code -> spec
    ht = hex_traces(400 if thorough else 100, 30, seed)
    bad, stats = tracecheck.validate("HexSymmetry_trace", "HexSymmetry_trace.cfg", MODDIR, ht, timeout=2400)
    rep.add_tlc("trace-validation:rotateIndex-walks", stats["tlc"])
    rep.add_traces("rotateIndex-random-walks", len(ht), sum(len(t["ev"]) for t in ht),
                   "seeded random walks of rotateIndex (k up to +-100000) on real grids; every event must be a Rotate(k) step "
                   "of HexSymmetry landing on the logged cell and lattice coordinates")
    trace_verdicts(rep, bad, "HexSymmetry")
    bt = block_traces(ad, 300 if thorough else 80, 16, seed)
    bad, stats = tracecheck.validate("BlockRotation_trace", "BlockRotation_trace.cfg", MODDIR, bt, timeout=2400)
    rep.add_tlc("trace-validation:assembly-rotation-histories", stats["tlc"])
    rep.add_traces("assembly-rotation-histories", len(bt), sum(len(t["ev"]) for t in bt),
                   "seeded random histories (block / assembly / refused off-grid rotations, |k| <= 13) on real assemblies of 1-4 "
                   "blocks with random layouts; every event with its complete projected post-state must be a step of BlockRotation")
    rep.sample({"kind": "trace", "id": bt[0]["id"], "cfg": bt[0]["cfg"], "first_event": bt[0]["ev"][0]["a"]})
    trace_verdicts(rep, bad, "BlockRotation")

    rep.assume(
        "lattice units: flats up (side/2, pitch/2), corners up (pitch/2, side/2); a real coordinate / unit is snapped to an "
        "integer within %g (relative), anything else is reported as it is" % UNIT_TOL,
        "third-core equivalents are also required in the order <<R120 c, R240 c>> (docstring; ThirdCoreHexToFullCoreChanger "
        "rotates the copy at equivalents[n] by (n+1)*120 degrees); Cartesian equivalents are compared as sets without duplicates",
        "Cartesian grids are built as gridBlueprint builds them: isOffset = not isThroughCenterAssembly; cells are w x h length "
        "units of %g cm: periodic grids only with square cells (1x1, 3x3; a 90-degree rotation is a lattice symmetry only then, "
        "stated as an ASSUME of CartSymmetry), reflective / full grids with 1x1, 2x1 and 1x3 cells; every query is made on the "
        "freshly built grid and on grids that reached the pitch through one or two changePitch calls" % CART_UNIT,
        "block rotations are requested as k*math.pi/3 (armi's _rotationNumberToRadians), refused ones as h*math.pi/6 with h odd",
        "corner/edge data are numbered counter-clockwise; orientation is compared modulo 360 degrees",
        "pin-indexed parameters (linPowByPin etc.) stay attached to pin m and are outside the statement",
    )


# ------------------------------------------------------------------------------------------------------------
def replay(payload):
    d = payload.get("direction")
    if d == "replay" and payload.get("adapter") == "third-to-full":
        ad = CoreAdapter(BlockAdapter())
        w = ad.build(payload["root"])
        for a in payload["behaviour"]:
            ad.apply(w, a)
        diff = rp.diff(payload["expected"], ad.project(w))
        print(json.dumps({"behaviour": payload["behaviour"], "first_difference": diff}, indent=1))
        return 1 if diff else 0
    if d == "replay":
        ad = BlockAdapter()
        w = ad.build(payload["root"])
        for a in payload["behaviour"]:
            ad.apply(w, a)
        got = ad.project(w)
        diff = rp.diff(payload["expected"], got)
        print(json.dumps({"behaviour": payload["behaviour"], "first_difference": diff, "observed_err": got["err"]}, indent=1))
        return 1 if diff else 0
    if d == "case":
        class R:
            violations = []

            def violation(self, key, what, payload=None):
                self.violations.append((key, what))

            def add_tlc(self, *a, **k):
                pass
        r = R()
        col = Collector(r)
        kind = payload.get("kind")
        c = payload["case"]
        if kind == "hex-state":
            data = run_hex(r, False, 0, mc=False)
            hw = HexWorld(data["nrings"])
            for s in data["states"]:
                if s["st"]["o"] == c["o"] and s["st"]["c"] == c["c"]:
                    hex_state_case(hw, c["o"], c["c"], s["obs"], col, c.get("sp", "canonical"))
                    break
        elif kind == "hex-rotate":
            data = run_hex(r, payload.get("tier") == "thorough", 0, mc=False)
            hw = HexWorld(data["nrings"])
            for e in data["edges"]:
                if e["from"]["o"] == c["o"] and e["from"]["c"] == c["c"] and e["act"]["k"] == c["k"]:
                    hex_edge_case(hw, e, col)
        elif kind in ("cart-state", "cart-apply"):
            data = run_cart(r, payload.get("tier") == "thorough", mc=False)
            cw = CartWorld(data["r"])
            if kind == "cart-state":
                for s in data["states"]:
                    if s["st"] == c:
                        chain = tuple(tuple(x) for x in payload.get("pitch_history", [c["pitch"]]))
                        cart_state_case(cw.grid(c["th"], c["bc"], chain, c.get("sp", "canonical")), c, s["obs"], col,
                                        ":afterChangePitch" if len(chain) > 1 else "", chain)
            else:
                for e in data["edges"]:
                    if e["from"] == c["from"] and e["act"]["g"] == c["g"]:
                        cart_edge_case(cw, e, col)
        for k, wt in r.violations:
            print(k, "::", wt)
        print("re-executed %d comparisons, %d differ" % (col.n, col.bad))
        return 1 if col.bad else 0
    print("replay of direction=%s: see payload (TLC trace / recorded trace)" % d)
    return 0


# ------------------------------------------------------------------------------------------------------------
# binding demonstration: in-process mutants of the anchored functions
# ------------------------------------------------------------------------------------------------------------
class _Rep:
    def __init__(self):
        self.keys = {}

    def violation(self, key, what, payload=None):
        self.keys[key] = self.keys.get(key, 0) + 1

    def add_replay(self, *a, **k):
        pass

    add_tlc = add_traces = sample = assume = note = add_replay


def _mutants():
    armi_ready()
    from collections import deque

    from armi.reactor import assemblies, blocks, grids
    from armi.reactor.grids import cartesian, hexagonal
    from armi.reactor.grids.locations import IndexLocation
    from armi.utils import hexagon, iterables

    HG, CG, HB = hexagonal.HexGrid, cartesian.CartesianGrid, blocks.HexBlock
    out = []

    def patch(obj, name, new, static=False):
        old = obj.__dict__[name]

        def on():
            setattr(obj, name, staticmethod(new) if static else new)

        def off():
            setattr(obj, name, old)
        return on, off

    # 1 sign slip in the 120-degree images
    out.append(("third-core images: (-i-j, i) written as (-i-j, j)", "hex",
                patch(HG, "_getSymmetricIdenticalsThird",
                      lambda ind: [] if (ind[0] == 0 and ind[1] == 0) else [(-ind[0] - ind[1], ind[1]), (ind[1], -ind[0] - ind[1])], True)))
    # 2 equivalents in the wrong order
    out.append(("third-core images listed as [R240, R120]", "hex",
                patch(HG, "_getSymmetricIdenticalsThird",
                      lambda ind: [] if (ind[0] == 0 and ind[1] == 0) else [(ind[1], -ind[0] - ind[1]), (-ind[0] - ind[1], ind[0])], True)))

    # 3 isInFirstThird: even-ring correction dropped
    def first_third(self, locator, includeTopEdge=False):
        ring, pos = self.getRingPos(locator.indices)
        if ring == 1:
            return True
        maxPosTotal = self.getPositionsInRing(ring)
        maxPos1 = ring + ring // 2 - 1
        maxPos2 = maxPosTotal - ring // 2 + 1
        if ring % 2:
            if includeTopEdge:
                maxPos1 += 1
        return bool(pos <= maxPos1 or pos >= maxPos2)
    out.append(("isInFirstThird: 'maxPos2 += 1' on even rings dropped", "hex", patch(HG, "isInFirstThird", first_third)))

    # 4 isInFirstThird: top edge included regardless
    def first_third2(self, locator, includeTopEdge=False):
        ring, pos = self.getRingPos(locator.indices)
        if ring == 1:
            return True
        maxPos1 = ring + ring // 2 - 1
        maxPos2 = self.getPositionsInRing(ring) - ring // 2 + 1
        if ring % 2:
            maxPos1 += 1
        else:
            maxPos2 += 1
        return bool(pos <= maxPos1 or pos >= maxPos2)
    out.append(("isInFirstThird: upper symmetry line always included", "hex", patch(HG, "isInFirstThird", first_third2)))

    # 5 rotateIndex: parity handled wrongly for negative k
    def rot_index(self, loc, rotations):
        i, j, k = loc[:3]
        buffer = deque((i, j, -(i + j)))
        buffer.rotate(-rotations)
        newI, newJ = buffer[0], buffer[1]
        if rotations > 0 and rotations % 2:
            newI *= -1
            newJ *= -1
        return IndexLocation(newI, newJ, k, loc.grid)
    out.append(("rotateIndex: negation only for positive odd k", "hex,block", patch(HG, "rotateIndex", rot_index)))

    # 6 rotateIndex clockwise
    def rot_index_cw(self, loc, rotations):
        i, j, k = loc[:3]
        buffer = deque((i, j, -(i + j)))
        buffer.rotate(rotations)
        newI, newJ = buffer[0], buffer[1]
        if rotations % 2:
            newI *= -1
            newJ *= -1
        return IndexLocation(newI, newJ, k, loc.grid)
    out.append(("rotateIndex turns clockwise", "hex,block", patch(HG, "rotateIndex", rot_index_cw)))

    # 7 symmetry line without the half-line guard
    def which_line(self, indices):
        i, j = indices[:2]
        if i == 0 and j == 0:
            return 4
        if i == -2 * j:
            return 1
        if i == j and i > 0:
            return 2
        if j == -2 * i and j > 0:
            return 3
        return None
    out.append(("overlapsWhichSymmetryLine: 'i > 0' guard of the 0-degree line dropped", "hex", patch(HG, "overlapsWhichSymmetryLine", which_line)))

    # 8 getIndexOfRotatedCell wrap boundary
    def rot_cell(n, k):
        if k < 0 or k > 5:
            raise ValueError
        if n > 1:
            if k == 0:
                return n
            ring = hexagon.numRingsToHoldNumCells(n)
            tot = hexagon.totalPositionsUpToRing(ring)
            new = n + (ring - 1) * k
            if new >= tot:
                new -= (ring - 1) * 6
            return new
        return n
    out.append(("getIndexOfRotatedCell: wrap test '>' written '>='", "hex", patch(hexagon, "getIndexOfRotatedCell", rot_cell)))

    # 9 Cartesian: offset forgotten in the rotated QII image
    orig_eq = CG.getSymmetricEquivalents

    def cart_eq(self, indices):
        r = orig_eq(self, indices)
        s = self.symmetry
        if str(s.domain) and not s.isThroughCenterAssembly and len(r) == 3 and "periodic" in str(s):
            i, j = indices[0:2]
            r = [(-j, i)] + list(r[1:])
        return r
    out.append(("Cartesian periodic, no centre cell: QII image (-j-1, i) written (-j, i)", "cart", patch(CG, "getSymmetricEquivalents", cart_eq)))

    # 10 Cartesian: axis cells, reflective, through centre: wrong mirror
    def cart_eq2(self, indices):
        r = orig_eq(self, indices)
        i, j = indices[0:2]
        s = self.symmetry
        if s.isThroughCenterAssembly and "reflective" in str(s) and i == 0 and j != 0:
            return [(j, i)]
        return r
    out.append(("Cartesian reflective with centre cell: cells on the y axis mapped to (j, i)", "cart", patch(CG, "getSymmetricEquivalents", cart_eq2)))

    # 11 Cartesian domain strict
    def cart_dom(self, locator, symmetryOverlap=False):
        from armi.reactor import geometry
        if self.symmetry.domain == geometry.DomainType.QUARTER_CORE:
            return locator.i > 0 and locator.j >= 0
        return True
    out.append(("Cartesian locatorInDomain: 'i >= 0' written 'i > 0'", "cart", patch(CG, "locatorInDomain", cart_dom)))

    # 11b changePitch rescales the y half-cell offset with the new x pitch
    def change_pitch(self, xw, yw):
        import numpy as np
        xwOld, ywOld = self._unitSteps[0][0], self._unitSteps[1][1]
        self._unitSteps = np.array(((xw, 0.0, 0.0), (0.0, yw, 0.0), (0, 0, 0)))[self._stepDims]
        self._offset = np.array((self._offset[0] * xw / xwOld, self._offset[1] * xw / ywOld, 0.0))
    out.append(("CartesianGrid.changePitch: y offset rescaled with xw instead of yw", "cart", patch(CG, "changePitch", change_pitch)))

    # source-level mutants: the method's own source with one edit, re-executed in its module
    def source_mutant(owner, name, edits, module, wrap=None):
        import inspect
        import textwrap
        raw = owner.__dict__[name]
        fn = raw.__func__ if isinstance(raw, (classmethod, staticmethod)) else raw
        src = textwrap.dedent(inspect.getsource(fn))
        for a, b in edits:
            if a not in src:
                raise tlc.MachineryError("selftest: source of %s no longer contains %r" % (name, a))
            src = src.replace(a, b)
        ns = dict(vars(module))
        exec(src, ns)
        new = ns[name]

        def on():
            setattr(owner, name, wrap(new) if wrap else new)

        def off():
            setattr(owner, name, raw)
        return on, off

    from armi.reactor import geometry
    from armi.reactor.converters import geometryConverters
    out.append(("third->full conversion: copies rotated by 0 and 120 degrees (0-based count)", "core",
                source_mutant(geometryConverters.ThirdCoreHexToFullCoreChanger, "convert",
                              [("count = 1\n", "pass\n"), ("for i, j in otherLocs:", "for count, (i, j) in enumerate(otherLocs):"),
                               ("count += 1\n", "pass\n")], geometryConverters)))
    out.append(("getRotationNum without '% 6'", "block,core",
                patch(HB, "getRotationNum", lambda self: int(__import__("numpy").rint(self.p.orientation[2] / 60.0)))))
    out.append(("SymmetryType.fromStr: through-centre test on the raw (not lower-cased) string", "cart",
                source_mutant(geometry.SymmetryType, "fromStr", [("_checkIfThroughCenter(canonical)", "_checkIfThroughCenter(symmetryString)")],
                              geometry, classmethod)))

    def rot_index_k0(self, loc, rotations):
        i, j = loc[:2]
        buffer = deque((i, j, -(i + j)))
        buffer.rotate(-rotations)
        newI, newJ = buffer[0], buffer[1]
        if rotations % 2:
            newI *= -1
            newJ *= -1
        return IndexLocation(newI, newJ, 0, loc.grid)
    out.append(("rotateIndex drops the axial index", "hex", patch(HG, "rotateIndex", rot_index_k0)))

    # 12 pivot direction reversed (as seen from blocks.py)
    orig_pivot = iterables.pivot
    out.append(("corner/edge data pivoted the other way", "block", patch(iterables, "pivot", lambda items, position: orig_pivot(items, -position))))

    # 13 displacement rotated clockwise
    def rot_disp(self, rad):
        dx, dy = self.p.get("displacementX"), self.p.get("displacementY")
        if dx is not None and dy is not None:
            self.p.displacementX = dx * math.cos(rad) + dy * math.sin(rad)
            self.p.displacementY = -dx * math.sin(rad) + dy * math.cos(rad)
    out.append(("displacement rotated clockwise", "block", patch(HB, "_rotateDisplacement", rot_disp)))

    # 13b displacement guard tests truthiness: displacementY == 0.0 exactly (dx != 0) is not rotated
    def rot_disp0(self, rad):
        dx, dy = self.p.get("displacementX"), self.p.get("displacementY")
        if (dx is not None) and dy:
            self.p.displacementX = dx * math.cos(rad) - dy * math.sin(rad)
            self.p.displacementY = dx * math.sin(rad) + dy * math.cos(rad)
    out.append(("displacement guard 'dispy is not None' written 'dispy' (dy == 0.0 not rotated)", "block", patch(HB, "_rotateDisplacement", rot_disp0)))

    # 13c rotNum not reduced modulo a full turn: |k| >= 7 leaves corner/edge data unrotated
    def rotate_nomod(self, rad):
        rotNum = round(rad / math.radians(60))
        self._rotateChildLocations(rad, rotNum)
        self.p.orientation[2] += rotNum * 60
        self._rotateBoundaryParameters(rotNum)
        self._rotateDisplacement(rad)
    out.append(("rotation number not reduced modulo 2 pi", "block", patch(HB, "rotate", rotate_nomod)))

    # 14 orientation decreases
    def rotate_ori(self, rad):
        rotNum = round((rad % (2 * math.pi)) / math.radians(60))
        self._rotateChildLocations(rad, rotNum)
        self.p.orientation[2] -= rotNum * 60
        self._rotateBoundaryParameters(rotNum)
        self._rotateDisplacement(rad)
    out.append(("orientation decreased instead of increased", "block", patch(HB, "rotate", rotate_ori)))

    # 15 rotNum truncated instead of rounded
    def rotate_int(self, rad):
        rotNum = int((rad % (2 * math.pi)) / math.radians(60))
        self._rotateChildLocations(rad, rotNum)
        self.p.orientation[2] += rotNum * 60
        self._rotateBoundaryParameters(rotNum)
        self._rotateDisplacement(rad)
    out.append(("rotation number truncated (int) instead of rounded", "block", patch(HB, "rotate", rotate_int)))

    # 16 free-coordinate children rotated with the transposed matrix; 17 multi-index children left in place
    orig_rcl = HB._rotateChildLocations

    def rcl_coord(self, radians, rotNum):
        orig_rcl(self, -radians, rotNum)
    out.append(("free-coordinate children rotated clockwise", "block", patch(HB, "_rotateChildLocations", rcl_coord)))

    def rcl_multi(self, radians, rotNum):
        keep = [(c, c.spatialLocator) for c in self if isinstance(c.spatialLocator, grids.MultiIndexLocation)]
        orig_rcl(self, radians, rotNum)
        for c, sl in keep[1:]:
            c.spatialLocator = sl
    out.append(("only the first multi-location child is rotated", "block", patch(HB, "_rotateChildLocations", rcl_multi)))

    # 17b children of a lattice without pins are left in place
    def rcl_nopins(self, radians, rotNum):
        if self.spatialGrid is None or not self.getNumPins():
            return
        orig_rcl(self, radians, rotNum)
    out.append(("lattice children of a block without pin components are not rotated", "block", patch(HB, "_rotateChildLocations", rcl_nopins)))

    # 17c rotated site locators cached per family size: a second family of equal count lands on the first one's sites
    def rcl_cache(self, radians, rotNum):
        fams = [c for c in self if isinstance(c.spatialLocator, grids.MultiIndexLocation)]
        sizes = {}
        before = {}
        for c in fams:
            before[id(c)] = len(c.spatialLocator)
        orig_rcl(self, radians, rotNum)
        for c in fams:
            n = before[id(c)]
            if n in sizes:
                c.spatialLocator = sizes[n]
            else:
                sizes[n] = c.spatialLocator
    out.append(("rotated multi-index locators cached by family size and reused", "block", patch(HB, "_rotateChildLocations", rcl_cache)))

    # 17d pivot of arrays by np.roll without an axis (2-D per-corner data slide across rows)
    def pivot_roll(items, position):
        import numpy as np
        if isinstance(items, np.ndarray):
            return np.roll(items, -position)
        return orig_pivot(items, position)
    out.append(("pivot: ndarray branch uses np.roll without axis", "block", patch(iterables, "pivot", pivot_roll)))

    # 18 assembly rotates all blocks but the top one
    def asm_rotate(self, rad):
        for b in list(self)[:-1] if len(self) > 1 else self:
            b.rotate(rad)
    out.append(("Assembly.rotate skips the top block", "block", patch(assemblies.Assembly, "rotate", asm_rotate)))

    # 19 HexAssembly.rotate accepts 30-degree steps
    def hexasm_rotate(self, rad):
        return assemblies.Assembly.rotate(self, rad)
    out.append(("HexAssembly.rotate no longer refuses angles off the 60-degree grid", "block", patch(assemblies.HexAssembly, "rotate", hexasm_rotate)))

    # 20 corners-up unit steps swapped
    orig_raw = HG._getRawUnitSteps

    def raw_steps(pitch, cornersUp=False):
        u = orig_raw(pitch, cornersUp)
        if cornersUp:
            return ((-pitch / 2.0, pitch / 2.0, 0), u[1], u[2])
        return u
    out.append(("corners-up grid: x unit steps of i and j swapped", "hex,block", patch(HG, "_getRawUnitSteps", raw_steps, True)))
    return out


def selftest():
    """prints one line per mutant: caught (with the keys that fired) or MISSED; returns 0 iff all are caught"""
    rep0 = _Rep()
    hdata = run_hex(rep0, False, 0, mc=False)
    cdata = run_cart(rep0, False, mc=False)
    graphs = run_blocks(rep0, False, mc=False)
    cgraph = run_core(rep0, False)

    def evaluate(parts):
        r = _Rep()
        for name, fn in (("hex", lambda: check_hex(r, hdata)), ("cart", lambda: check_cart(r, cdata)),
                         ("block", lambda: check_blocks(r, graphs, False, 0, BlockAdapter())),
                         ("core", lambda: check_core(r, cgraph, BlockAdapter()))):
            if name not in parts:
                continue
            try:
                fn()
            except tlc.MachineryError as ex:
                r.keys["machinery-failure(%s): %s" % (name, str(ex)[:60])] = 1
            except Exception as ex:  # a mutant that makes the real code crash is detected as well (exit 2 in ./check)
                r.keys["crash(%s): %s" % (name, type(ex).__name__)] = 1
        return r.keys

    base = evaluate({"hex", "cart", "block", "core"})
    print("baseline (unchanged code) keys: %s" % (sorted(base) or "none"))
    missed = 0
    for desc, parts, (on, off) in _mutants():
        on()
        try:
            keys = evaluate(set(parts.split(",")))
            new = sorted(k for k in keys if k not in base)
        finally:
            off()
        if new:
            print("caught  %-80s -> %s" % (desc, ", ".join(new[:4]) + (" ..." if len(new) > 4 else "")))
        else:
            missed += 1
            print("MISSED  %s" % desc)
    after = evaluate({"hex", "cart", "block", "core"})
    if sorted(after) != sorted(base):
        print("MISSED  restoring the original code did not restore the baseline: %s" % sorted(after))
        missed += 1
    # trace validators must reject corrupted traces
    ad = BlockAdapter()
    bt = block_traces(ad, 6, 8, 1)
    good_prefix = [t for t in bt]
    bad1 = copy.deepcopy(bt[0])
    bad1["id"] = "corrupt-field"
    bad1["ev"][2]["post"]["obs"]["blocks"][0]["deg"] = (bad1["ev"][2]["post"]["obs"]["blocks"][0]["deg"] + 60) % 360
    bad2 = copy.deepcopy(bt[1])
    bad2["id"] = "dropped-event"
    drop = next((x for x, e in enumerate(bad2["ev"][:-1]) if e["post"]["err"] == "" and e["a"].get("k", 0) % 6 != 0), None)
    traces = [bad1]
    if drop is not None:
        del bad2["ev"][drop]
        traces.append(bad2)
    badl, _ = tracecheck.validate("BlockRotation_trace", "BlockRotation_trace.cfg", MODDIR, traces + good_prefix[2:4])
    rejected = {b["trace"]["id"] for b in badl}
    for t in traces:
        if t["id"] in rejected:
            print("caught  trace validator rejects %s" % t["id"])
        else:
            missed += 1
            print("MISSED  trace validator accepts %s" % t["id"])
    ht = hex_traces(4, 6, 2)
    hb = copy.deepcopy(ht[0])
    hb["id"] = "corrupt-cell"
    hb["ev"][3]["post"]["c"][0] += 1
    badl, _ = tracecheck.validate("HexSymmetry_trace", "HexSymmetry_trace.cfg", MODDIR, [hb] + ht[1:])
    if "corrupt-cell" in {b["trace"]["id"] for b in badl}:
        print("caught  rotateIndex trace validator rejects a corrupted cell")
    else:
        missed += 1
        print("MISSED  rotateIndex trace validator accepts a corrupted cell")
    print("selftest: %d missed" % missed)
    return 0 if missed == 0 else 1
