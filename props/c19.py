"""C19 -- nuclide directory and material library.

1. NuclideIds_mc      the identifier encodings as pure functions: TLC checks the injectivity / decoding laws and prints the
                      expected identifiers for Z x A x state cases; the real encoders are called once per case.
2. NuclideFactory     small model of how the directory is built (constructors, special cases, MC2 data, changeLabel):
                      exhaustive TLC run of the clauses of NuclideDirectory on every reachable directory, then every explored
                      edge is replayed on the real constructors inside a sandboxed copy of the module-level state.
3. NuclideTable       the live directory (about 4 700 nuclides, nine indices, 120 elements, burn chain) exported from the
                      running modules and validated by TLC against the same clauses (code -> spec).
4. MaterialTable      every class of armi.materials exported (instantiation, composition, density / expansion over every stated
                      range) and validated by TLC against MaterialLibrary.
Expected values and verdicts are TLC's; this module only exports, calls, projects and compares.
"""
import contextlib
import json
import math
import os
import random

from harness import common, tlc
from harness import replay as rp
from harness.armi_env import armi_ready

MODDIR = os.path.join(common.SPEC, "nuc")
SANY = ("NuclideIds_mc", "NuclideFactory_mc", "NuclideTable", "MaterialTable")
FACTORY_ACTIONS = ("Registration", "Refusal", "Special", "Mcc", "Relabelling")
NT = {"quick": 25, "thorough": 201}  # temperatures per stated range and function (end points included)

_SELFTEST = False
_CACHE = {}


# ----------------------------------------------------------------------------------------------------------------------
# 1. encoders
# ----------------------------------------------------------------------------------------------------------------------
class _Stub:
    """the attributes the identifier methods read (they are called unbound on this stand-in, not re-implemented)"""

    def __init__(self, z, a, s, name):
        self.z, self.a, self.state, self.name = z, a, s, name


def encoder_cases(rep, prints):
    armi_ready()
    from armi.nucDirectory import elements, nuclideBases as nb

    n = bad = 0
    sample = None
    for p in prints:
        if not isinstance(p, dict) or "cases" not in p:
            continue
        z = p["z"]
        el = elements.byZ.get(z)
        if el is None or el.symbol != p["sym"]:
            rep.violation("ids:element:%d" % z, "elements.byZ[%d] is %r, the periodic table of the specification says %s" % (z, el, p["sym"]),
                          {"direction": "cases", "z": z})
            continue
        nat = _Stub(z, 0, 0, el.symbol)
        got_nat = {"natName": el.symbol, "natDb": nb.INuclide.getDatabaseName(nat), "natMcnp": nb.NaturalNuclideBase.getMcnpId(nat)}
        for k, v in got_nat.items():
            n += 1
            if v != p[k]:
                bad += 1
                rep.violation("ids:%s" % k, "element %s: %s is %r, specification %r" % (el.symbol, k, v, p[k]),
                              {"direction": "cases", "z": z, "expected": p[k], "observed": v})
        for c in p["cases"]:
            a, s = c["a"], c["s"]
            try:
                name = nb.NuclideBase._createName(el, a, s)
                st = _Stub(z, a, s, name)
                got = {"name": name, "label": nb.NuclideBase._createLabel(el, a, s), "db": nb.INuclide.getDatabaseName(st),
                       "mcnp": nb.NuclideBase.getMcnpId(st), "azs": nb.NuclideBase.getAAAZZZSId(st)}
            except Exception as ex:  # noqa: BLE001  a legal (z, a, state) the encoder cannot handle is a verdict
                got = {k: "%s: %s" % (type(ex).__name__, ex) for k in ("name", "label", "db", "mcnp", "azs")}
            for k, v in got.items():
                n += 1
                if v != c[k]:
                    bad += 1
                    special = ":am242" if (z, a) == (95, 242) else ""
                    rep.violation("ids:%s:state%d%s" % (k, s, special),
                                  "%s(%s, A=%d, state=%d) returns %r, the specification's encoding is %r" % (k, el.symbol, a, s, v, c[k]),
                                  {"direction": "cases", "z": z, "a": a, "s": s, "field": k, "expected": c[k], "observed": v})
            if sample is None and z == 95 and a == 242 and s == 0:
                sample = {"kind": "encoder case", "z": z, "a": a, "s": s, "expected": {k: c[k] for k in got}, "observed": got}
    if n == 0:
        raise tlc.MachineryError("NuclideIds_mc printed no cases")
    if sample:
        rep.sample(sample)
    return n, bad


# ----------------------------------------------------------------------------------------------------------------------
# 2. factory replay in a sandbox of the module-level state
# ----------------------------------------------------------------------------------------------------------------------
NB_ATTRS = ("instances", "byName", "byDBName", "byLabel", "byMcc2Id", "byMcc3Id", "byMcc3IdEndfbVII0", "byMcc3IdEndfbVII1", "byMcnpId",
            "byAAAZZZSId", "burnChainImposed")


@contextlib.contextmanager
def sandbox():
    """Swap every module-level container of nuclideBases (and every Element.nuclides list) for an empty one; restore on exit.
    The code under test runs unmodified on the swapped state."""
    armi_ready()
    from armi import context
    from armi.nucDirectory import elements, nuclideBases as nb

    saved = {a: getattr(nb, a) for a in NB_ATTRS}
    members = {id(e): (e, e.nuclides) for e in elements.byZ.values()}
    res = context.RES
    try:
        yield
    finally:
        for a, v in saved.items():
            setattr(nb, a, v)
        for e, lst in members.values():
            e.nuclides = lst
        context.RES = res


class FactoryAdapter:
    WEIGHTS = {"DUMP1": 10.0, "DUMP2": 240.0}

    def __init__(self, zs=(1, 95, 119)):
        armi_ready()
        from armi import context
        from armi.nucDirectory import elements, nuclideBases as nb

        self.nb, self.elements, self.context = nb, elements, context
        self.resdir = common.workdir("c19res")
        self.zs = zs  # the elements of the specification's universe (ZUsed), in increasing order

    def build(self, root):
        nb = self.nb
        nb.instances = []
        for a in NB_ATTRS[1:-1]:
            setattr(nb, a, {})
        nb.burnChainImposed = False
        for e in self.elements.byZ.values():
            e.nuclides = []
        return {"err": "", "zs": None}

    def apply(self, w, a):
        nb, el = self.nb, self.elements
        w["err"] = ""
        n = a["n"]
        try:
            if n == "Add":
                nb.NuclideBase(el.byZ[a["z"]], a["a"], float(a["a"]), a["ab"] / 1e9, a["s"], math.inf)
            elif n == "AddNatural":
                nb.NaturalNuclideBase(el.byZ[a["z"]].symbol, el.byZ[a["z"]])
            elif n == "AddSpecial":
                if a["kind"] == "dummy":
                    nb.DummyNuclideBase(name=a["name"], weight=self.WEIGHTS.get(a["name"], 10.0))
                else:
                    nb.LumpNuclideBase(name=a["name"], weight=233.0)
            elif n == "SpecialCases":
                nb.updateNuclideBasesForSpecialCases()
            elif n == "ReadMcc":
                self._read_mcc(a["data"])
            elif n == "ChangeLabel":
                nb.changeLabel(nb.instances[a["k"] - 1], a["l"])
            elif n == "Destroy":
                nb.destroyGlobalNuclides()
            else:
                raise AssertionError("unknown action " + n)
        except ValueError:
            w["err"] = "ValueError"  # the refusal the specification models (addGlobalNuclide); anything else propagates
        return w["err"]

    def _read_mcc(self, data):
        def q(v):
            return "null" if v == "" else json.dumps(v)

        with open(os.path.join(self.resdir, "mcc-nuclides.yaml"), "w") as f:
            for d in data:
                f.write("%s:\n  ENDF/B-V.2: %s\n  ENDF/B-VII.0: %s\n  ENDF/B-VII.1: %s\n" % (d["name"], q(d["v2"]), q(d["v70"]), q(d["v71"])))
        old = self.context.RES
        self.context.RES = self.resdir
        try:
            self.nb.readMCCNuclideData()
        finally:
            self.context.RES = old

    def project(self, w):
        zs = self.zs
        from harness import gen_nuctable as g

        d = g.observe_directory()
        rows = [{k: v for k, v in r.items() if k != "i"} for r in d["rows"]]
        members = [{"z": e["z"], "members": sorted(e["members"])} for e in d["elements"] if e["z"] in zs]
        return {"rows": rows, "idx": d["idx"], "nkeys": {k: len(v) for k, v in d["idx"].items()}, "members": members, "err": w["err"]}


def _norm_obs(o):
    """ToJson renders an empty function as []: the specification's empty dictionaries"""
    o = dict(o)
    o["idx"] = {k: ({} if v == [] else v) for k, v in o["idx"].items()}
    return o


def edge_graph(ecfg):
    if ecfg not in _CACHE:
        _CACHE[ecfg] = tlc.run("NuclideFactory_mc", ecfg, MODDIR, workers=1, coverage=False, timeout=3000)
    eres = _CACHE[ecfg]
    obs = {rp.skey(p["st"]): p["obs"] for p in eres.prints if isinstance(p, dict) and "st" in p}
    edges = []
    for p in eres.prints:
        if isinstance(p, dict) and "act" in p:
            o = obs.get(rp.skey(p["to"]))
            if o is None:
                continue
            e = dict(p)
            e["obs"] = dict(_norm_obs(o), err=p["err"])
            edges.append(e)
    g = rp.Graph(edges)
    if g.states() != eres.distinct:
        raise tlc.MachineryError("state key of NuclideFactory_mc is not injective: %d keys for %d states" % (g.states(), eres.distinct))
    return eres, g


def factory(rep, tier, seed):
    thorough = tier == "thorough"
    mcfg = "NuclideFactory_mc_thorough.cfg" if thorough else "NuclideFactory_mc.cfg"
    ecfg = "NuclideFactory_emit_thorough.cfg" if thorough else "NuclideFactory_emit.cfg"
    if not _SELFTEST:
        res = tlc.run("NuclideFactory_mc", mcfg, MODDIR, want_prints=False, timeout=3000)
        rep.add_tlc("exhaustive:" + mcfg, res)
        if res.violation:
            rep.violation("tlc:factory:" + res.violation["name"], "TLC: %s violated in NuclideFactory" % res.violation["name"],
                          {"direction": "tlc", "trace": res.violation["trace"][:20000]})
        never = [a for a in FACTORY_ACTIONS if res.coverage.get(a, (0, 0))[1] == 0]
        if never:
            raise tlc.MachineryError("vacuous: actions never taken in %s: %s" % (mcfg, never))
    eres, g = edge_graph(ecfg)
    if not _SELFTEST:
        rep.add_tlc("edges:" + ecfg, eres)
    ad = FactoryAdapter()
    with sandbox():
        n, nt, divs = rp.replay_graph(g, ad, max_edges=1500 if _SELFTEST else None if thorough else 6000, rng=random.Random(seed))
    if n == 0:
        raise tlc.MachineryError("no factory edges replayed")
    rep.add_replay("factory-edges", n, nt,
                   "every edge (s,a,t) of TLC's state graph of NuclideFactory is executed as path(s);a with the real constructors / "
                   "functions on an emptied copy of the module-level dictionaries; the whole directory (rows, nine indices, element "
                   "membership) is compared after the edge; non-trivial = the edge changes the directory")
    for d in divs:
        import re

        where = re.sub(r"\[\d+\]", "", d["first_difference"].split(":")[0])
        rep.violation("replay:%s:%s" % (d["action"]["n"], where),
                      "real nuclideBases diverges from NuclideFactory after %s: %s" % (json.dumps(d["action"]), d["first_difference"]),
                      dict(d, direction="replay"))
    if g.edges:
        e = next((x for x in g.edges if x["act"]["n"] == "SpecialCases"), g.edges[len(g.edges) // 2])
        rep.sample({"kind": "edge", "path": [s["act"] for s in g.path[e["_fk"]]], "act": e["act"],
                    "expected_idx_byName": e["obs"]["idx"]["byName"], "expected_idx_byDBName": e["obs"]["idx"]["byDBName"]})


# ----------------------------------------------------------------------------------------------------------------------
# 3 + 4. the live tables
# ----------------------------------------------------------------------------------------------------------------------
MCC3_FAMILY = {"mcc3": "mcc3", "mcc3v0": "mcc3", "mcc3v1": "mcc3"}


def _detail(f):
    return f.get("detail", "")


def nuc_key(f, shared):
    col = MCC3_FAMILY.get(f["col"], f["col"])
    if f["clause"] == "NoShared":
        return "nuc:NoShared:%s:%s" % (col, json.loads(f["detail"]) if f["detail"].startswith('"') else f["detail"])
    if f["clause"] == "LookupSame":
        for (c, ident) in shared:
            if c == col and ('"%s"' % ident) in f["detail"]:
                return "nuc:NoShared:%s:%s" % (col, ident)  # a consequence of the shared identifier, same root cause
    if f["clause"] == "Abundance" and col == "sum":
        import re

        m = re.search(r"ppb \|-> (-?\d+)", f["detail"])  # element and the sum it has: another wrong sum of the same element is another key
        return "nuc:Abundance:sum:%s%s" % (f["who"], ":" + m.group(1) if m else "")
    return "nuc:%s:%s:%s" % (f["clause"], col, f["who"])


def mat_key(f):
    """material, clause and failure mode: a different un-normalisation / a different kind of bad value is a different key"""
    import re

    if f["clause"] in ("KnownNuclides", "FractionsInRange"):
        return "mat:%s:%s:%s" % (f["who"], f["clause"], f["col"])
    if f["clause"] == "Normalised":
        m = re.search(r"sumPpb \|-> (-?\d+)", f["detail"])
        return "mat:%s:Normalised:%s%s" % (f["who"], f["col"], ":" + m.group(1) if m else "")
    if f["clause"] == "InstanceIndependent":
        return "mat:%s:InstanceIndependent:%s" % (f["who"], f["col"])
    m = re.search(r'status \|-> "([^"]*)", micro \|-> (-?\d+)', f["detail"])
    if m and f["clause"] == "UnitsAgree":  # status / micro are those of the entry point that is not the stated unit
        p = re.search(r'inStatedUnit \|-> <<"([^"]*)"', f["detail"])
        mode = m.group(1) if m.group(1) != "ok" else ("stated-" + p.group(1)) if p and p.group(1) != "ok" else "differs"
        return "mat:%s:UnitsAgree:%s:%s" % (f["who"], f["col"], mode)
    if m and f["clause"] in ("DerivedFinite", "NominalDerivedFinite"):
        mode = m.group(1) if m.group(1) != "ok" else "zero" if int(m.group(2)) == 0 else "negative"
        return "mat:%s:%s:%s:%s" % (f["who"], f["clause"], f["col"], mode)
    if m:
        mode = m.group(1) if m.group(1) != "ok" else "zero" if int(m.group(2)) == 0 else "negative"
        return "mat:%s:%s:%s" % (f["who"], f["clause"], mode)
    return "mat:%s:%s" % (f["who"], f["clause"])


def export_table(tier, chain_path=None):
    from harness import gen_nuctable as g

    doc = g.export_all(NT[tier], chain_path)
    path = os.path.join(common.workdir("c19tab"), "table.json")
    with open(path, "w") as f:
        json.dump(doc, f)
    return doc, path


def run_table(module, cfg, path):
    res = tlc.run(module, cfg, MODDIR, workers=4, env={"C19_TABLE": path}, extra=("-continue",), coverage=False, timeout=3000)
    tallies = [p for p in res.prints if isinstance(p, dict) and "tally" in p]
    fails = [p for p in res.prints if isinstance(p, dict) and "clause" in p]
    if res.violation is not None and not fails:
        raise tlc.MachineryError("%s: TLC reports %s but printed no failure record\n%s" % (module, res.violation["name"], res.violation["trace"][:2000]))
    if res.violation is None and fails:
        raise tlc.MachineryError("%s: failure records without an invariant violation" % module)
    if sum(t["failed"] for t in tallies) != len(fails):
        raise tlc.MachineryError("%s: tallies announce %d failures, %d records printed" % (module, sum(t["failed"] for t in tallies), len(fails)))
    return res, tallies, fails


def live_directory(rep, doc, path):
    res, tallies, fails = run_table("NuclideTable", "NuclideTable.cfg", path)
    rep.add_tlc("live-directory:NuclideTable.cfg", res, {"rows": len(doc["rows"]), "ChunkSize": 500})
    nrows = len(doc["rows"])
    checked = {}
    for t in tallies:
        checked[t["tally"]] = checked.get(t["tally"], 0) + t["checked"]
    # non-vacuity: TLC's own count of what it looked at must cover the export
    for cl in ("Retrievable", "LookupSame", "HasIds", "Encodes", "Membership"):
        if checked.get(cl) != nrows:
            raise tlc.MachineryError("NuclideTable: clause %s covered %s of %d rows" % (cl, checked.get(cl), nrows))
    for cl, want in (("Abundance", len(doc["elements"])), ("ElementsIndexed", len(doc["elements"])),
                     ("BurnChain", len(doc["chainFile"]) + len(doc["chainLive"])), ("Mcc3IsV1", 1),
                     ("KeysOwned", sum(len(v) for v in doc["idx"].values()))):
        if checked.get(cl) != want:
            raise tlc.MachineryError("NuclideTable: clause %s covered %s, expected %d" % (cl, checked.get(cl), want))
    if nrows < 1000 or len(doc["chainFile"]) < 50:
        raise tlc.MachineryError("export is implausibly small: %d nuclides, %d burn-chain entries" % (nrows, len(doc["chainFile"])))
    shared = set()
    for f in fails:
        if f["clause"] == "NoShared":
            shared.add((MCC3_FAMILY.get(f["col"], f["col"]), json.loads(f["detail"]) if f["detail"].startswith('"') else f["detail"]))
    # a systematic failure (an encoder, an index) hits hundreds of nuclides: report it once per input class, with examples
    rowinfo = {r["name"]: r for r in doc["rows"]}
    groups = {}
    for f in fails:
        groups.setdefault((f["clause"], MCC3_FAMILY.get(f["col"], f["col"])), []).append(f)
    for (clause, col), fs in groups.items():
        if len(fs) <= 8 or clause in ("Abundance", "BurnChain", "ElementsIndexed"):
            for f in fs:
                rep.violation(nuc_key(f, shared), "nuclide directory: clause %s fails for %s (%s): %s" % (f["clause"], f["who"], f["col"], f["detail"]),
                              {"direction": "table", "part": "nuc", "failure": f})
            continue
        classes = {}
        for f in fs:
            r = rowinfo.get(f["who"])
            cls = "%s:state%d" % (r["kind"], r["s"]) if r else "key"
            classes.setdefault(cls, []).append(f)
        for cls, cf in sorted(classes.items()):
            rep.violation("nuc:%s:%s:%s" % (clause, col, cls),
                          "nuclide directory: clause %s (%s) fails for %d nuclides of class %s, e.g. %s" % (
                              clause, col, len(cf), cls, "; ".join("%s %s" % (f["who"], f["detail"]) for f in cf[:4])),
                          {"direction": "table", "part": "nuc", "failure": cf[0], "count": len(cf), "examples": [f["who"] for f in cf[:50]]})
    rep.add_traces("live-nuclide-directory", 1, nrows,
                   "the module-level state the real factory built at import (+ imposeBurnChain), exported row by row through the "
                   "nuclides' own getters and the dictionaries' own values, validated by TLC against every clause of NuclideDirectory")
    rep.extra["directory"] = {"nuclides": nrows, "index_keys": {k: len(v) for k, v in doc["idx"].items()}, "elements": len(doc["elements"]),
                              "burn_chain_entries": len(doc["chainFile"]), "clause_items_checked_by_TLC": checked,
                              "max_abundance_sum_deviation_ppb": _max_abund_dev(doc)}
    r = next((r for r in doc["rows"] if r["name"] == "AM242G"), doc["rows"][0])
    rep.sample({"kind": "table row", "row": r, "byName[AM242]": doc["idx"]["byName"].get("AM242"), "byDBName[nAm242]": doc["idx"]["byDBName"].get("nAm242")})
    return fails


def _max_abund_dev(doc):
    """observation for the evidence file only (the verdict is TLC's)"""
    rows = doc["rows"]
    worst = (0, "")
    for e in doc["elements"]:
        t = sum(rows[i - 1]["abund"] for i in e["members"] if 0 < i <= len(rows) and rows[i - 1]["a"] > 0)
        if t and abs(t - 10 ** 9) > worst[0]:
            worst = (abs(t - 10 ** 9), e["symbol"])
    return {"ppb": worst[0], "element": worst[1]}


def material_library(rep, doc, path, tier):
    res, tallies, fails = run_table("MaterialTable", "MaterialTable.cfg", path)
    mats = doc["materials"]
    rep.add_tlc("material-library:MaterialTable.cfg", res, {"materials": len(mats), "temperatures_per_range": NT[tier]})
    if len({t["k"] for t in tallies}) != len(mats) or len(mats) < 30:
        raise tlc.MachineryError("MaterialTable covered %d of %d materials" % (len({t["k"] for t in tallies}), len(mats)))
    nsamp = sum(len(r["samples"]) for m in mats for r in m["ranges"])
    lib = [m for m in mats if m["kind"] == "library"]
    tl = sum(t["checked"] for t in tallies if t["tally"] in ("DensityPositive", "PseudoDensityPositive", "ExpansionFinite", "NominalDensityPositive",
                                                              "NominalPseudoDensityPositive", "NominalExpansionFinite", "DerivedFinite",
                                                              "NominalDerivedFinite"))
    want = sum(len(r["samples"]) for m in lib if m["inst"] == "ok" for r in m["ranges"])
    if tl != want or want == 0:
        raise tlc.MachineryError("MaterialTable looked at %d samples of %d" % (tl, want))
    both = sum(t["checked"] for t in tallies if t["tally"] == "UnitsAgree")
    wantb = sum(len(r["samples"]) for m in lib if m["inst"] == "ok" for r in m["ranges"] if r["both"])
    ninst = sum(t["checked"] for t in tallies if t["tally"] == "InstanceIndependent")
    if both != wantb or wantb == 0 or ninst != sum(len(m["instances"]) for m in mats) or ninst < 3 * len(mats):
        raise tlc.MachineryError("MaterialTable: UnitsAgree looked at %d of %d samples, InstanceIndependent at %d instances" % (both, wantb, ninst))
    for f in fails:
        rep.violation(mat_key(f), "material library: %s.%s fails %s: %s" % (f["who"], f["col"], f["clause"], f["detail"]),
                      {"direction": "table", "part": "mat", "failure": f})
    rep.add_traces("material-library", len(mats), nsamp,
                   "every class of armi.materials instantiated three times (round robin) and evaluated (density, pseudoDensity, "
                   "linearExpansionPercent through Tk= and Tc=, linearExpansionFactor, getThermalExpansionDensityReduction at %d "
                   "temperatures per stated range, end points as stated), validated by TLC against MaterialLibrary" % NT[tier])
    rep.extra["materials"] = {"classes": len(mats), "library": len(lib), "not_library": {m["name"]: m["kind"] for m in mats if m["kind"] != "library"},
                              "stated_ranges": sum(1 for m in lib for r in m["ranges"] if r["stated"] and r["fn"] == "density"),
                              "library_without_stated_range": sorted(m["name"] for m in lib if m["ranges"] and not m["ranges"][0]["stated"]),
                              "samples": nsamp}
    m = next((m for m in mats if m["name"] == "UO2"), mats[0])
    rep.sample({"kind": "material", "name": m["name"], "entries": m["entries"],
                "range": {k: v for k, v in m["ranges"][0].items() if k != "samples"}, "first_samples": m["ranges"][0]["samples"][:3]})
    return fails


# ----------------------------------------------------------------------------------------------------------------------
def run(rep, tier, seed):
    thorough = tier == "thorough"
    rep.exhaustive = True
    # the live state is exported first, before anything is sandboxed
    doc, path = export_table(tier)
    if not _SELFTEST:
        for m in SANY:
            tlc.sany(m, MODDIR)
    # 1. encodings
    icfg = "NuclideIds_mc_thorough.cfg" if thorough else "NuclideIds_mc.cfg"
    if icfg not in _CACHE:
        _CACHE[icfg] = tlc.run("NuclideIds_mc", icfg, MODDIR, workers=4, coverage=False, timeout=3000)
    ires = _CACHE[icfg]
    if not _SELFTEST:
        rep.add_tlc("encodings:" + icfg, ires)
    if ires.violation:
        rep.violation("tlc:ids:" + ires.violation["name"], "TLC: %s violated in NuclideIds_mc" % ires.violation["name"],
                      {"direction": "tlc", "trace": ires.violation["trace"][:20000]})
    n, bad = encoder_cases(rep, ires.prints)
    rep.add_replay("encoder-cases", n, n, "one call of the real encoder per (identifier, Z, A, state) case printed by NuclideIds_mc")
    # 2. factory model
    factory(rep, tier, seed)
    # 3. live directory, 4. materials
    live_directory(rep, doc, path)
    material_library(rep, doc, path, tier)
    rep.assume(
        "the directory checked is the one the import of armi.nucDirectory built in this process, plus imposeBurnChain(resources/burn-chain.yaml)",
        "Am-242: the ground state is named AM242G; AM242 and nAm242 are aliases of AM242M (the only index keys that are not an identifier of the nuclide they return)",
        "MC2-2 identifiers are opaque library names (retrievable, agreeing, unique); MC2-3 identifiers follow the pattern symbol+A(+M), padded with _ to five characters, + 7",
        "natural abundances sum to one within 1e-6 (single-precision data, at most ten natural isotopes: a normalised element is within 6e-7; "
        "83 of 84 shipped elements are within 4e-8)",
        "library material = every class of armi.materials except Material, Fluid, SimpleSolid, FuelMaterial, Water (abstract), Custom, _Mixture, Void",
        "mass fractions sum to one within 1e-5 (ten units of the last decimal of the finest hand-typed composition, MOX)",
        "density = Material.density and Material.pseudoDensity, expansion = linearExpansionPercent (+ volumetricExpansion where a range is stated for it); "
        "all are probed over every stated density / expansion range, in the stated unit, end points exactly as stated; "
        "a class without a stated range is probed over a nominal 25..600 C (clauses Nominal...)",
        "every material class is instantiated three times, round robin over the classes; later instances must equal the first (composition digit for digit, probed values)",
        "both entry points (Tk=, Tc=) of every property are asked at every sample and must agree within one millionth; the Celsius-only derived functions "
        "linearExpansionFactor(Tc=t, T0=lo) and getThermalExpansionDensityReduction(lo, t) must be finite (the reduction positive)",
        "quantisation: fractions in ppb preserving the comparisons with 0 and 1; densities and expansions in millionths rounded away from zero",
    )


def replay(payload):
    d = payload.get("direction")
    if d == "replay":
        ad = FactoryAdapter()
        steps = [{"act": a, "obs": {}} for a in payload["behaviour"]]
        steps[-1]["obs"] = payload["expected"]
        with sandbox():
            div = rp.run_behaviour(ad, payload.get("root", {}), steps, check_from=len(steps) - 1)
        print(json.dumps(div, indent=1, default=str) if div else "no divergence: behaviour conforms")
        return 1 if div else 0
    if d == "cases":
        armi_ready()
        from armi.nucDirectory import elements, nuclideBases as nb

        z, a, s_, fld = payload["z"], payload.get("a", 0), payload.get("s", 0), payload.get("field")
        el = elements.byZ[z]
        st = _Stub(z, a, s_, nb.NuclideBase._createName(el, a, s_) if a else el.symbol)
        got = {"name": st.name, "label": nb.NuclideBase._createLabel(el, a, s_) if a else el.symbol, "db": nb.INuclide.getDatabaseName(st),
               "mcnp": nb.NuclideBase.getMcnpId(st) if a else nb.NaturalNuclideBase.getMcnpId(st), "azs": nb.NuclideBase.getAAAZZZSId(st)}
        print("z=%s a=%s state=%s: real encoders return %s; the specification expects %s = %r" % (z, a, s_, got, fld, payload.get("expected")))
        return 1 if fld in got and got[fld] != payload.get("expected") else 0
    if d == "table":
        f = payload["failure"]
        tier = payload.get("tier", "quick")
        doc, path = export_table(tier)
        mod, cfg = ("NuclideTable", "NuclideTable.cfg") if payload.get("part") == "nuc" else ("MaterialTable", "MaterialTable.cfg")
        _, _, fails = run_table(mod, cfg, path)
        same = [x for x in fails if x["clause"] == f["clause"] and x["who"] == f["who"] and x["col"] == f["col"]]
        print(json.dumps(same, indent=1) if same else "the clause holds now for %s" % f["who"])
        return 1 if same else 0
    print("replay of direction=%s: see payload (TLC trace)" % d)
    return 0


# ----------------------------------------------------------------------------------------------------------------------
# binding demonstration
# ----------------------------------------------------------------------------------------------------------------------
@contextlib.contextmanager
def rebuilt(*patches, chain=None, files=None):
    """Apply in-process patches, rebuild elements + nuclide directory + burn chain the way an import would, yield, then
    restore the pristine state.  `files`: {resource file name: text transform} served from a copy of the resource directory."""
    armi_ready()
    import shutil

    from armi import context
    from armi.nucDirectory import elements, nuclideBases as nb

    res = context.RES
    tmp = None

    def rebuild():
        elements.factory()
        nb.destroyGlobalNuclides()
        nb.factory()
        nb.burnChainImposed = False

    try:
        with contextlib.ExitStack() as st:
            for p in patches:
                st.enter_context(p)
            try:
                if files:
                    tmp = common.workdir("c19mut")
                    for fn in os.listdir(res):
                        src = os.path.join(res, fn)
                        if os.path.isfile(src) and fn not in files:
                            os.symlink(src, os.path.join(tmp, fn))
                    for fn, tr in files.items():
                        with open(os.path.join(res, fn)) as f:
                            txt = f.read()
                        new = tr(txt)
                        if new == txt:
                            raise tlc.MachineryError("mutant of %s changed nothing" % fn)
                        with open(os.path.join(tmp, fn), "w") as f:
                            f.write(new)
                    context.RES = tmp
                rebuild()
                yield
            finally:
                context.RES = res
    finally:
        rebuild()
        if tmp:
            shutil.rmtree(tmp, ignore_errors=True)


def selftest():
    global _SELFTEST
    from harness.report import Report
    from harness.selftest import patched, run_mutants

    armi_ready()
    from armi.materials import ht9, material, sodium, uraniumOxide, zr
    from armi.nucDirectory import elements, nuclideBases as nb, transmutations

    _SELFTEST = True
    P = patched
    rc = 0
    # 0. the specification is not vacuous: the as-built destroyGlobalNuclides is refuted by TLC
    res = tlc.run("NuclideFactory_mc", "NuclideFactory_destroy.cfg", MODDIR, workers=4, want_prints=False, timeout=600)
    ok = res.violation is not None and res.violation["name"] == "MembershipInv"
    print("%s  spec-level: destroyGlobalNuclides leaves Element.nuclides behind -> MembershipInv %s by TLC" % (
        "caught " if ok else "MISSED ", "refuted" if ok else "NOT refuted"))
    rc |= 0 if ok else 1
    # 0b. the half-registration on an MCNP-identifier collision: refuted by TLC, and the real code follows the model (it is real)
    res = tlc.run("NuclideFactory_mc", "NuclideFactory_mcnp.cfg", MODDIR, workers=4, want_prints=False, timeout=600)
    ok = res.violation is not None and res.violation["name"] in ("LookupSameInv", "MembershipInv", "KeysOwnedInv")
    print("%s  spec-level: addGlobalNuclide half-registers a nuclide whose MCNP identifier collides -> %s by TLC (%s)" % (
        "caught " if ok else "MISSED ", "refuted" if ok else "NOT refuted", res.violation["name"] if res.violation else "-"))
    rc |= 0 if ok else 1
    _, g = edge_graph("NuclideFactory_mcnp_emit.cfg")
    with sandbox():
        n, nt, divs = rp.replay_graph(g, FactoryAdapter(zs=(19,)))
    print("%s  the real constructors follow the as-built model on %d edges (%d divergences)" % ("conforms" if not divs and n else "MISSED ", n, len(divs)))
    rc |= 0 if not divs and n else 1

    def detect():
        rep = Report("C19", "quick", 0)
        run(rep, "quick", 0)
        return [v["key"] for v in rep.violations]

    # ---- mutants of the encoders / registration (rebuild the directory under the patch, as an import would) ----
    def label_two_digits_only(element, a, state):
        firstTwoDigits = (a % 100) // 10  # forgets that one-letter symbols leave room for the hundreds
        lastDigit = "0123456789" "ABCDEFGHIJ" "KLMNOPQRST" "UVWXYZabcd"[(a % 10) + state * 10]
        return "{}{}{}".format(element.symbol, firstTwoDigits, lastDigit)

    def mcnp_no_am_exception(self):
        z, a = self.z, self.a
        if self.state > 0:
            a += 300 + 100 * self.state
        return "{z:d}{a:03d}".format(z=z, a=a)

    def azs_unpadded(self):
        return f"{self.a}{self.z}{self.state}"

    orig_add = nb.addGlobalNuclide

    def add_forgets_dbname(nuclide):
        orig_add(nuclide)
        if nuclide.state == 2:
            nb.byDBName.pop(nuclide.getDatabaseName(), None)

    def add_azs_for_ground_only(nuclide):
        orig_add(nuclide)
        if isinstance(nuclide, nb.NuclideBase) and nuclide.state > 0:
            nb.byAAAZZZSId.pop(nuclide.getAAAZZZSId(), None)
            nb.byAAAZZZSId[f"{nuclide.a}{nuclide.z:>03d}0"] = nuclide

    def special_forgets_dbname():
        am242g = nb.byName["AM242"]
        am242g.name = "AM242G"
        nb.byName["AM242G"] = am242g
        am242m = nb.byName["AM242M"]
        nb.byName["AM242"] = am242m
        nb.byDBName["nAm242"] = am242m

    def special_alias_not_moved():
        am242g = nb.byName["AM242"]
        am242g.name = "AM242G"
        nb.byName["AM242G"] = am242g
        nb.byDBName[am242g.getDatabaseName()] = am242g

    orig_mcc = nb.readMCCNuclideData

    def mcc_indexes_v0_under_v1():
        orig_mcc()
        nb.byMcc3IdEndfbVII1["AM2417"] = nb.byName["AM243"]

    def append_no_sort_dedupe(self, nuclide):
        self.nuclides.append(nuclide)

    def natural_ge_zero(self):
        return [nuc for nuc in self.nuclides if nuc.abundance >= 0.0 and nuc.a > 0]

    orig_lump_init = nb.LumpNuclideBase.__init__

    def lump_in_dummy_element(self, name, weight):
        real = elements.byName["LumpedFissionProduct"]
        elements.byName["LumpedFissionProduct"] = elements.byName["Dummy"]
        try:
            orig_lump_init(self, name, weight)
        finally:
            elements.byName["LumpedFissionProduct"] = real

    orig_tr_init = transmutations.Transmutable.__init__

    def transmutable_percent(self, parent, dataDict):
        orig_tr_init(self, parent, dataDict)
        if self.type == "nGamma":
            self.branch = self.branch * 100.0

    def process_drops_decays(self, burnInfo):
        self.decays = []
        self.trans = []
        for item in burnInfo:
            kind = list(item.keys())[0]
            if kind == self.TRANSMUTATION:
                self.trans.append(transmutations.Transmutation(self, item[kind]))

    # ---- material mutants ----
    def ht9_unnormalised(self):
        ht9.HT9.__dict__["_c19_orig"](self)
        self.massFrac["FE"] = self.massFrac["FE"] + 0.003

    def zr_unknown_nuclide(self):
        self.massFrac["ZR0"] = 1.0
        self.refDens = 6.569997702553134

    def uo2_lep_nan_at_top(self, Tk=None, Tc=None):
        from armi.utils.units import getTk
        Tk = getTk(Tc, Tk)
        v = uraniumOxide.UraniumOxide.__dict__["_c19_lep"](self, Tk=Tk)
        return float("nan") if Tk >= 3123.0 else v

    def pseudo_density_wrong_sign(self, Tk=None, Tc=None):
        from armi.utils.units import getTk
        Tk = getTk(Tc, Tk)
        dLL = self.linearExpansionPercent(Tk=Tk)
        return self.refDens / (1.0 - dLL) ** 3 if dLL > 1.3 else self.refDens / (1.0 + dLL / 100.0) ** 2

    def sodium_init_raises(self):
        raise KeyError("NA")

    from armi.materials import inconelPE16, thoriumOxide

    pe16_nominal = {k: v for k, v in inconelPE16.InconelPE16().massFrac.items() if k != "FE"}  # hoisted to "class level"

    def pe16_shared_composition(self):
        massFracs = pe16_nominal
        massFracs["FE"] = 1 - sum(massFracs.values())  # the balance is written into the shared dict
        for element, massFrac in massFracs.items():
            self.setMassFrac(element, massFrac)

    def tho2_lep_forwards_both(self, Tk=None, Tc=None):
        from armi.utils.units import getTk
        Tk_ = getTk(Tc=Tc, Tk=Tk)
        return 100 * (self.linearExpansion(Tk=Tk_, Tc=Tc) * (Tk_ - 298))

    ht9.HT9._c19_orig = ht9.HT9.setDefaultMassFracs
    uraniumOxide.UraniumOxide._c19_lep = uraniumOxide.UraniumOxide.linearExpansionPercent

    NBC = nb.NuclideBase
    mutants = [
        ("_createLabel: hundreds digit dropped for one-letter symbols", lambda: rebuilt(P(NBC, "_createLabel", staticmethod(label_two_digits_only)))),
        ("getMcnpId: no Am-242 exception", lambda: rebuilt(P(NBC, "getMcnpId", mcnp_no_am_exception))),
        ("getAAAZZZSId: Z not zero padded", lambda: rebuilt(P(NBC, "getAAAZZZSId", azs_unpadded))),
        ("addGlobalNuclide: second isomers missing from byDBName", lambda: rebuilt(P(nb, "addGlobalNuclide", add_forgets_dbname))),
        ("addGlobalNuclide: isomers keyed as ground state in byAAAZZZSId", lambda: rebuilt(P(nb, "addGlobalNuclide", add_azs_for_ground_only))),
        ("updateNuclideBasesForSpecialCases: byDBName not re-pointed", lambda: rebuilt(P(nb, "updateNuclideBasesForSpecialCases", special_forgets_dbname))),
        ("updateNuclideBasesForSpecialCases: AM242 still returns the ground state", lambda: rebuilt(P(nb, "updateNuclideBasesForSpecialCases", special_alias_not_moved))),
        ("readMCCNuclideData: one VII.1 key points at another nuclide", lambda: rebuilt(P(nb, "readMCCNuclideData", mcc_indexes_v0_under_v1))),
        ("Element.append: no duplicate check", lambda: rebuilt(P(elements.Element, "append", append_no_sort_dedupe))),
        ("Element.getNaturalIsotopics: abundance >= 0", lambda: rebuilt(P(elements.Element, "getNaturalIsotopics", natural_ge_zero))),
        ("LumpNuclideBase registers with the Dummy element", lambda: rebuilt(P(nb.LumpNuclideBase, "__init__", lump_in_dummy_element))),
        ("nuclides.dat: Dy-156 abundance 6.0e-4 -> 5.6e-4, not renormalised (sum 0.99996)",
         lambda: rebuilt(files={"nuclides.dat": lambda t: t.replace("1.55924282934e+02 6.00000000000e-04", "1.55924282934e+02 5.60000000000e-04")})),
        ("nuclides.dat: Fe-56 abundance 0.9175 -> 0.9715", lambda: rebuilt(files={"nuclides.dat": lambda t: t.replace("9.17539980000e-01", "9.71539980000e-01")})),
        ("mcc-nuclides.yaml: PU239 and PU240 swap their VII.1 identifiers", lambda: rebuilt(files={"mcc-nuclides.yaml": _swap_pu})),
        ("burn-chain.yaml: product typo NP237 -> NP273", lambda: rebuilt(files={"burn-chain.yaml": lambda t: t.replace("- NP237", "- NP273", 1)})),
        ("Transmutable: nGamma branching in percent", lambda: rebuilt(P(transmutations.Transmutable, "__init__", transmutable_percent))),
        ("_processBurnData drops the decays", lambda: rebuilt(P(nb.INuclide, "_processBurnData", process_drops_decays))),
        ("HT9 composition un-normalised by 0.003", lambda: P(ht9.HT9, "setDefaultMassFracs", ht9_unnormalised)),
        ("Zr refers to an unknown nuclide", lambda: P(zr.Zr, "setDefaultMassFracs", zr_unknown_nuclide)),
        ("UO2 linearExpansionPercent NaN at the top of its range", lambda: P(uraniumOxide.UraniumOxide, "linearExpansionPercent", uo2_lep_nan_at_top)),
        ("Material.pseudoDensity negative above 1.3 % expansion", lambda: P(material.Material, "pseudoDensity", pseudo_density_wrong_sign)),
        ("InconelPE16 composition dict shared by all instances (second instance wrong)",
         lambda: P(inconelPE16.InconelPE16, "setDefaultMassFracs", pe16_shared_composition)),
        ("ThoriumOxide.linearExpansionPercent forwards Tk and Tc (Celsius entry points raise)",
         lambda: P(thoriumOxide.ThoriumOxide, "linearExpansionPercent", tho2_lep_forwards_both)),
        ("Sodium cannot be instantiated", lambda: P(sodium.Sodium, "setDefaultMassFracs", sodium_init_raises)),
    ]
    try:
        rc |= run_mutants(mutants, detect)
    finally:
        _SELFTEST = False
        del ht9.HT9._c19_orig
        del uraniumOxide.UraniumOxide._c19_lep
    return rc


def _swap_pu(txt):
    return txt.replace("ENDF/B-VII.1: PU2397", "ENDF/B-VII.1: @@@").replace("ENDF/B-VII.1: PU2407", "ENDF/B-VII.1: PU2397").replace("ENDF/B-VII.1: @@@", "ENDF/B-VII.1: PU2407")
