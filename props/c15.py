"""C15 -- a run visits every time node once, in order, calling hooks in stack order; node arithmetic is consistent.

Three specifications (spec/run), each bound to the real code:

  CycleArithmetic   cycle-history expansion + (cycle,node) <-> cumulative node / step conversions (armi/utils/__init__.py).
                    TLC checks the laws over every small history input; every case is printed with the values the real
                    functions must return and the real functions are called once per case.
  Operator          the standard run loop (armi/operators/operator.py), one action per hook dispatch.
                    (a) exhaustive TLC run of the clauses of the statement;
                    (b) spec -> code: every run TLC prints (configuration + complete call log) is executed on a real
                        Operator with recording interfaces and the two logs must be equal, call by call;
                    (c) code -> spec: seeded random configurations beyond the exhaustive bounds are run on the real
                        Operator and the recorded logs are validated by TLC against Operator_trace.
  OperatorDispatch  stack construction (addInterface with/without index, duplicate-name refusal, removeInterface) and the
                    public dispatch entry points with exclusion lists; every edge of TLC's graph is replayed.

Expected values always come from TLC; this file only builds inputs, runs the real code, projects and compares.
"""
import json
import os
import random
from concurrent.futures import ThreadPoolExecutor
from fractions import Fraction

from harness import common, tlc, tracecheck
from harness import replay as rp
from harness.armi_env import armi_ready

MODDIR = os.path.join(common.SPEC, "run")
RTOL = 1e-9  # step / cycle lengths are at most three double operations away from the exact rational
BASIC_POWER = 1.0e6  # `power` of the smallest test reactor input

ENTRY_FIELDS = ("e", "i", "c", "n", "it", "rc", "rn", "ci", "sl", "pw", "ret", "cv")
NOREF, FULL, UNKNOWN = [-1, -1], [-2, -2], [-9, -9]


# ============================================================================================================
# part A: cycle arithmetic
# ============================================================================================================
def _f(q):
    return float(Fraction(q[0], q[1]))


def _rep(vals, style):
    """Surface form of a list setting: plain, or with the documented repeat shorthand ('R2' / '2R')."""
    if style == 0:
        return list(vals)
    out, i = [], 0
    while i < len(vals):
        j = i
        while j + 1 < len(vals) and vals[j + 1] == vals[i]:
            j += 1
        out.append(vals[i])
        if j > i:
            out.append(("R%d" if style == 1 else "%dR") % (j - i))
        i = j + 1
    return out


def history_settings(case, k=0):
    """Build the cycle-history settings a user would write for the case printed by CycleArithmetic (the adapter's only
    freedom is the surface form: scalar vs list settings, repeat shorthand)."""
    hist = case["hist"]
    n = len(hist)
    if case["mode"] == "simple":
        L = [float(c["len"]) for c in hist]
        A = [_f(c["af"]) for c in hist]
        P = [_f(c["p"]) for c in hist]
        h = {"nCycles": n, "burnSteps": case["bs"], "cycles": []}
        if len(set(L)) == 1 and k % 2 == 0:
            h["cycleLength"], h["cycleLengths"] = L[0], []
        else:
            h["cycleLengths"] = _rep(L, k % 3)
        if len(set(A)) == 1 and k % 2 == 1:
            h["availabilityFactor"], h["availabilityFactors"] = A[0], []
        else:
            h["availabilityFactors"] = _rep(A, (k + 1) % 3)
        h["powerFractions"] = [] if (set(P) == {1.0} and k % 2 == 0) else _rep(P, (k + 2) % 3)
        return h
    cycles = []
    for ci, c in enumerate(hist):
        d = {}
        if c["form"] == "step":
            d["step days"] = _rep(list(c["days"]), (k + ci) % 3)
        elif c["form"] == "cum":
            d["cumulative days"] = list(c["days"])
        else:
            d["burn steps"] = c["n"]
            d["cycle length"] = float(c["len"])
        if c["afGiven"]:
            d["availability factor"] = _f(c["af"])
        if c["pf"] == "ramp":
            nb = len(c["days"]) if c["form"] in ("step", "cum") else c["n"]
            d["power fractions"] = [1.0 / (j + 1) for j in range(nb)]
        if (k + ci) % 2 == 0:
            d["name"] = "cyc%d" % ci
        cycles.append(d)
    return {"nCycles": n, "cycles": cycles}


def case_tag(case):
    """Stable identifier of the input class of a case (used in violation keys)."""
    if case["mode"] == "simple":
        return "simple:bs%s" % ("0" if case["bs"] == 0 else "+")
    tags = []
    for c in case["hist"]:
        if c["form"] == "bs" and c["n"] == 0:
            tags.append("bs-form:burn-steps=0")
        elif c["form"] == "bs" and c["af"][0] == 0:
            tags.append("bs-form:availability=0")
    for t in ("bs-form:burn-steps=0", "bs-form:availability=0"):
        if t in tags:
            return "detailed:" + t
    return "detailed:" + "+".join(sorted({c["form"] for c in case["hist"]}))


class ArithAdapter:
    def __init__(self, rig):
        armi_ready()
        from armi import utils

        self.u = utils
        self.rig = rig

    def check(self, case, k):
        """-> list of (function, message) differences between the real functions and the case."""
        u = self.u
        cs = self.rig.configure(history=history_settings(case, k))
        out = []

        def close(a, b):
            return abs(a - b) <= RTOL * max(abs(a), abs(b)) + 1e-300

        def cmp_nested(name, got, exp):
            exp = [[_f(q) for q in row] for row in exp]
            if len(got) != len(exp) or any(len(g) != len(e) for g, e in zip(got, exp)) or any(
                    not close(float(x), y) for g, e in zip(got, exp) for x, y in zip(g, e)):
                out.append((name, "expected %r, observed %r" % (exp, got)))

        def cmp_flat(name, got, exp):
            exp = [_f(q) for q in exp]
            if len(got) != len(exp) or any(not close(float(x), y) for x, y in zip(got, exp)):
                out.append((name, "expected %r, observed %r" % (exp, got)))

        def cmp_eq(name, got, exp):
            if got != exp:
                out.append((name, "expected %r, observed %r" % (exp, got)))

        cmp_nested("getStepLengths", u.getStepLengths(cs), case["stepLengths"])
        cmp_flat("getCycleLengths", u.getCycleLengths(cs), case["cycleLengths"])
        cmp_flat("getAvailabilityFactors", u.getAvailabilityFactors(cs), case["availabilityFactors"])
        cmp_nested("getPowerFractions", u.getPowerFractions(cs), case["powerFractions"])
        cmp_eq("getBurnSteps", list(u.getBurnSteps(cs)), case["burnSteps"])
        cmp_eq("getNodesPerCycle", list(u.getNodesPerCycle(cs)), case["nodesPerCycle"])
        cmp_eq("getMaxBurnSteps", u.getMaxBurnSteps(cs), case["maxBurnSteps"])
        cmp_eq("hasBurnup", bool(u.hasBurnup(cs)), case["hasBurnup"])
        names = u.getCycleNames(cs)
        cmp_eq("getCycleNames:len", len(names), case["nCycles"])
        for kk, (c, n) in enumerate(case["visit"]):
            cmp_eq("getCumulativeNodeNum", u.getCumulativeNodeNum(c, n, cs), kk)
            cmp_eq("getCycleNodeFromCumulativeNode", tuple(u.getCycleNodeFromCumulativeNode(kk, cs)), (c, n))
        for s, (c, n) in enumerate(case["stepStarts"], start=1):
            cmp_eq("getCycleNodeFromCumulativeStep", tuple(u.getCycleNodeFromCumulativeStep(s, cs)), (c, n))
        for kk, (c, n) in enumerate(case["prev"]):
            cur = case["visit"][kk + 1]
            cmp_eq("getPreviousTimeNode", tuple(u.getPreviousTimeNode(cur[0], cur[1], cs)), (c, n))
        for r in case["refused"]:
            try:
                if r["f"] == "FromCumNode":
                    u.getCycleNodeFromCumulativeNode(r["k"], cs)
                elif r["f"] == "FromCumStep":
                    u.getCycleNodeFromCumulativeStep(r["k"], cs)
                else:
                    u.getPreviousTimeNode(r["c"], r["n"], cs)
                out.append(("refusal:" + r["f"], "no error for the out-of-domain argument %r" % (r,)))
            except ValueError:
                pass
        return out


def run_arith(rep, thorough, seed, rig, fut_mc, fut_emit, max_cases=None):
    if fut_mc is not None:
        res = fut_mc.result()
        rep.add_tlc("arith-exhaustive", res, {"cfg": "CycleArithmetic_mc" + _sfx(thorough)})
        _tlc_verdict(rep, res, "CycleArithmetic")
        _nonvacuous(res, ("AddSimple", "AddDetailed"))
    eres = fut_emit.result()
    rep.add_tlc("arith-cases", eres, {"cfg": "CycleArithmetic_emit" + _sfx(thorough)})
    _tlc_verdict(rep, eres, "CycleArithmetic")
    cases = [p for p in eres.prints if isinstance(p, dict) and "visit" in p]
    if not cases:
        raise tlc.MachineryError("CycleArithmetic emission printed no case")
    if {c["mode"] for c in cases} != {"simple", "detailed"}:
        raise tlc.MachineryError("vacuous: AddSimple / AddDetailed not both taken")
    if max_cases and len(cases) > max_cases:
        cases = random.Random(seed + 11).sample(cases, max_cases)
    ad = ArithAdapter(rig)
    nbad = 0
    for k, case in enumerate(cases):
        try:
            diffs = ad.check(case, k)
        except (ArithmeticError, ValueError, IndexError, KeyError, TypeError) as ex:
            diffs = [("exception:" + type(ex).__name__, "%s: %s" % (type(ex).__name__, ex))]
        for fn, msg in diffs[:1]:
            nbad += 1
            tag = case_tag(case)
            rep.violation("arith:%s:%s" % (fn, tag),
                          "armi.utils %s CycleArithmetic for the history %s: %s" % (
                              ("raises where the specification defines a value in" if fn.startswith("exception") else
                               fn + " disagrees with"), json.dumps(history_settings(case, k)), msg),
                          {"direction": "case", "part": "arith", "case": case, "k": k, "function": fn})
    rep.add_replay("cycle-arithmetic-cases", len(cases), len(cases),
                   "one case = one cycle-history input (simple or detailed) printed by TLC with the tables the real "
                   "armi.utils functions must return; each function is called for every node / step of the case")
    mid = cases[len(cases) // 2]
    rep.sample({"kind": "arith-case", "settings": history_settings(mid, len(cases) // 2),
                "expected": {k: mid[k] for k in ("stepLengths", "cycleLengths", "burnSteps", "visit", "stepStarts")}})
    return len(cases), nbad


# ============================================================================================================
# part B: the run loop
# ============================================================================================================
def run_history(steps, variant=0):
    """A cycle history with the given burn steps whose step lengths and power fractions identify (cycle, node):
    step (c, n) lasts 1 + 8c + n days at power fraction (1 + 8c + n) / 64.  variant 1 (only when every cycle has the same
    number b >= 1 of steps) writes the simple input instead: cycle c has length b * (c + 1) at availability 1 and power
    fraction (c + 1) / 8, i.e. every step of cycle c lasts c + 1 days.
    -> (history settings, step-length table, power table) ; tables map (c, n) -> the value the hooks must see."""
    n = len(steps)
    sl, pw = {}, {}
    if variant == 1 and len(set(steps)) == 1 and steps[0] >= 1:
        b = steps[0]
        for c in range(n):
            for j in range(b):
                sl[(c, j)] = float(c + 1)
                pw[(c, j)] = ((c + 1) / 8.0) * BASIC_POWER
        return ({"nCycles": n, "burnSteps": b, "cycleLengths": [float(b * (c + 1)) for c in range(n)],
                 "availabilityFactors": [], "availabilityFactor": 1.0, "powerFractions": [(c + 1) / 8.0 for c in range(n)],
                 "cycles": []}, sl, pw)
    if n == 1 and steps[0] == 0 and variant == 1:
        return {"nCycles": 1, "burnSteps": 0, "cycles": []}, sl, pw
    cycles = []
    for c, b in enumerate(steps):
        days = [1 + 8 * c + j for j in range(b)]
        pfs = [(1 + 8 * c + j) / 64.0 for j in range(b)]
        for j in range(b):
            sl[(c, j)] = float(days[j])
            pw[(c, j)] = pfs[j] * BASIC_POWER
        d = {"power fractions": pfs}
        if c % 2 == 0:
            d["step days"] = days
        else:
            acc, cum = 0, []
            for x in days:
                acc += x
                cum.append(acc)
            d["cumulative days"] = cum
        if c % 3 == 1:
            d["availability factor"] = 0.5
        cycles.append(d)
    return {"nCycles": n, "cycles": cycles}, sl, pw


class RunAdapter:
    """Runs one configuration of Operator.tla on a real armi Operator and projects the recorded calls."""

    def __init__(self, rig):
        self.rig = rig
        from harness import gen_operator as go

        self.go = go

    def run(self, cfg, env, variant=0, order=None, pre=None):
        """pre = optional [{en, bf, rev}, ...]: the interfaces are attached with THESE flags and then brought to the flags of
        the configuration through the public setters (enabled(b), bolForce(b), reverseAtEOL = b) -- a flag history whose end
        state is the configuration the specification is given."""
        go, rig = self.go, self.rig
        hist, sl, pw = run_history(cfg["steps"], variant)
        st = go.stack_settings(cfg["ifs"], cfg["dcyc"], cfg["tight"], cfg["cap"], cfg["skip"])
        st["startCycle"], st["startNode"] = cfg["sc"], cfg["sn"]
        rig.configure(history=hist, settings=st)
        o = rig.new_operator()
        sink = []
        b = cfg.get("bolset", 0)
        ifs0 = cfg["ifs"] if pre is None else [dict(f, **p) for f, p in zip(cfg["ifs"], pre)]
        recs = go.build_stack(rig, o, ifs0, sink, env, order=order, sets_start=(b, cfg["sc"], cfg["sn"]) if b else None)
        if pre is not None:
            for i, (f, p) in enumerate(zip(cfg["ifs"], pre), start=1):
                if p["en"] != f["en"]:
                    recs[i].enabled(bool(f["en"]))
                if p["bf"] != f["bf"]:
                    recs[i].bolForce(bool(f["bf"]))
                if p["rev"] != f["rev"]:
                    recs[i].reverseAtEOL = bool(f["rev"])
        if cfg["tight"]:
            o.addInterface(go.DbStub.make(rig.r, rig.cs, sink), enabled=False)
        # restart point in place at entry, or (bolset) put there by a BOL hook of the stack while operate() starts at (0, 0)
        if b:
            rig.reset_time(0, 0)
        else:
            rig.reset_time(cfg["sc"], cfg["sn"])
        err = None
        try:
            o.operate()
        except Exception as ex:  # noqa: BLE001 -- any exception out of operate() is an observation, not a harness failure
            err = "%s: %s" % (type(ex).__name__, ex)
        finally:
            o.removeAllInterfaces()
        return [self.project(e, sl, pw) for e in sink], err

    @staticmethod
    def canon(ref, table):
        """Several (c, n) may carry the same value (simple input): compare through the first one that has the value."""
        ref = tuple(ref)
        if ref not in table:
            return list(ref)
        v = table[ref]
        for k in sorted(table):
            if table[k] == v:
                return list(k)
        return list(ref)

    def project(self, e, sl, pw):
        out = {k: e[k] for k in ENTRY_FIELDS if k in e}
        out["sl"] = self.lookup(e["_sl"], sl, full=None)
        out["pw"] = self.lookup(e["_pw"], pw, full=BASIC_POWER)
        return out

    def lookup(self, v, table, full):
        if v == self.go.SENTINEL:
            return NOREF
        for k in sorted(table):
            if table[k] == v or abs(table[k] - v) <= 1e-12 * abs(v):
                return list(k)
        if full is not None and v == full:
            return FULL
        return UNKNOWN


def env_from_log(go, log):
    """The environment answers TLC chose in a printed run, as lookup tables for the recording interfaces."""
    halts, convs, noises = {}, {}, {}
    for e in log:
        if e["e"] == "BOC":
            halts[(e["i"], e["c"])] = e["ret"]
        elif e["e"] != "DBW":
            noises[(e["i"], e["e"], e["rc"], e["rn"], e["it"])] = e["ret"]
        if e["e"] == "CPL":
            convs[(e["i"], e["rc"], e["rn"], e["it"])] = e["cv"]
    return go.ScriptEnv(halts, convs, noises)


def instance_of(e):
    """Identity of the event a call belongs to (one _interactAll invocation)."""
    return (e["e"], e["rc"], e["rn"], e["it"])


def short_circuit_kinds(exp, got, sl, pw, canon):
    """Classification of a divergence (never an oracle: any difference from TLC's log is reported).  If the observed log is
    exactly TLC's log minus the calls that follow, inside one event, a call that returned True, the divergence is the
    `halt = halt or interactMethod()` short-circuit of Operator._interactAll; returns the kinds of event it hit, else None."""
    kept, kinds, cur, tripped = [], set(), None, False
    for e in exp:
        inst = instance_of(e)
        if inst != cur or e["e"] == "DBW":
            cur, tripped = inst, False
        if tripped:
            kinds.add("BOC" if e["e"] == "BOC" else "other")
            continue
        kept.append(e)
        if e["ret"]:
            tripped = True
    if kinds and first_log_difference(kept, got, sl, pw, canon) is None:
        return sorted(kinds)
    return None


def first_log_difference(exp, got, sl, pw, canon):
    for k in range(max(len(exp), len(got))):
        if k >= len(got):
            return k, "call %d missing: expected %s" % (k + 1, _short(exp[k])), "missing:" + exp[k]["e"]
        if k >= len(exp):
            return k, "extra call %d: %s" % (k + 1, _short(got[k])), "extra:" + got[k]["e"]
        a, b = dict(exp[k]), dict(got[k])
        a["sl"], a["pw"] = canon(a["sl"], sl), canon(a["pw"], pw)
        for f in ENTRY_FIELDS:
            if a[f] != b.get(f):
                return k, "call %d field %s: expected %s, observed %s" % (k + 1, f, _short(a), _short(b)), "%s:%s" % (a["e"], f)
    return None


def _short(e):
    return json.dumps({k: e[k] for k in ENTRY_FIELDS if k in e}, separators=(",", ":"))


SC_KEYS = {"BOC": "short-circuit:halt-request-skips-later-BOC-hooks", "other": "short-circuit:truthy-return-skips-later-hooks"}
SC_WHAT = {
    "BOC": "Operator._interactAll (`halt = halt or interactMethod(*args)`) does not call interactBOC of the interfaces that "
           "follow the one that requested the halt; the statement dispatches every event to exactly the active interfaces.",
    "other": "Operator._interactAll (`halt = halt or interactMethod(*args)`) stops calling the remaining interfaces of an "
             "event as soon as one hook returns a true value, although only interactAllBOC's result has a meaning.",
}


def cfg_tag(cfg):
    """Stable identifier of the input class an exception belongs to."""
    return "cap=0" if cfg["tight"] and cfg["cap"] == 0 else "-"


def run_replay(rep, thorough, seed, rig, fut_emit, max_runs):
    eres = fut_emit.result()
    rep.add_tlc("operator-runs", eres, {"cfg": "Operator_emit" + _sfx(thorough)})
    _tlc_verdict(rep, eres, "Operator")
    runs = [p for p in eres.prints if isinstance(p, dict) and "log" in p]
    if not runs:
        raise tlc.MachineryError("Operator emission printed no run")
    rng = random.Random(seed * 31 + 5)
    if max_runs and len(runs) > max_runs:
        runs = rng.sample(runs, max_runs)
    ad = RunAdapter(rig)
    go = ad.go
    nontrivial = 0
    for k, run in enumerate(runs):
        cfg, exp = run["cfg"], run["log"]
        variant = k % 2
        m = len(cfg["ifs"])
        order = list(range(1, m + 1))
        if k % 3 == 1:
            order.reverse()
        elif k % 3 == 2:
            rng.shuffle(order)
        # every fourth run reaches the flags of the configuration through a history: attached with all three flags inverted,
        # then set through enabled(b) / bolForce(b) / reverseAtEOL = b
        pre = [{"en": not f["en"], "bf": not f["bf"], "rev": not f["rev"]} for f in cfg["ifs"]] if k % 4 == 3 else None
        got, err = ad.run(cfg, env_from_log(go, exp), variant=variant, order=order, pre=pre)
        _, sl, pw = run_history(cfg["steps"], variant)
        if len(exp) > 2:
            nontrivial += 1
        d = first_log_difference(exp, got, sl, pw, ad.canon)
        if err is not None:
            rep.violation("run:exception:%s:%s" % (err.split(":")[0], cfg_tag(cfg)),
                          "Operator.operate() raised %s for configuration %s (after %d of %d expected calls)" % (
                              err, json.dumps(cfg), len(got), len(exp)),
                          {"direction": "run", "part": "run", "cfg": cfg, "expected_log": exp, "variant": variant,
                           "order": order, "pre": pre, "error": err})
        elif d is not None and short_circuit_kinds(exp, got, sl, pw, ad.canon):
            for kind in short_circuit_kinds(exp, got, sl, pw, ad.canon):
                rep.violation(SC_KEYS[kind], SC_WHAT[kind] + " Configuration %s: %s" % (json.dumps(cfg), d[1]),
                              {"direction": "run", "part": "run", "cfg": cfg, "expected_log": exp, "variant": variant,
                               "order": order, "pre": pre, "diverged_at": d[0], "first_difference": d[1]})
        elif d is not None:
            rep.violation("run:%s" % d[2],
                          "real Operator diverges from Operator.tla for configuration %s: %s" % (json.dumps(cfg), d[1]),
                          {"direction": "run", "part": "run", "cfg": cfg, "expected_log": exp, "variant": variant,
                           "order": order, "pre": pre, "diverged_at": d[0], "first_difference": d[1]})
    rep.add_replay("operator-runs", len(runs), nontrivial,
                   "one behaviour = one complete run printed by TLC (configuration, environment answers, full call log) "
                   "executed by Operator.operate() on the smallest test reactor with recording interfaces; the recorded "
                   "calls (hook, interface, arguments, r.p.cycle/timeNode, coupledIteration, stepLength, power, return "
                   "value) must equal TLC's log; non-trivial = more than two calls")
    r0 = runs[len(runs) // 3]
    rep.sample({"kind": "run", "cfg": r0["cfg"], "expected_calls": [_short(e) for e in r0["log"][:8]], "n_calls": len(r0["log"])})
    return len(runs)


# -- code -> spec ---------------------------------------------------------------------------------------------
def random_cfg(rng, big):
    ncyc = rng.randint(1, 4 if big else 3)
    steps = [rng.randint(0, 3) for _ in range(ncyc)]
    sc = rng.randrange(ncyc) if rng.random() < 0.5 else 0
    sn = rng.randint(0, steps[sc]) if rng.random() < 0.6 else 0
    m = rng.randint(1, 5 if big else 4)
    ifs = []
    for _ in range(m):
        ifs.append({"en": rng.random() < 0.75, "bf": rng.random() < 0.3, "rev": rng.random() < 0.35,
                    "dfr": rng.random() < 0.3, "cpl": rng.random() < 0.5, "hlt": rng.random() < 0.3})
    tight = rng.random() < 0.6
    # half of the restarts away from (0, 0) are put in place by the BOL hook of some interface of the stack (called at BOL or not)
    bolset = rng.randint(1, m) if (sc, sn) != (0, 0) and rng.random() < 0.5 else 0
    return {"steps": steps, "sc": sc, "sn": sn, "ifs": ifs, "dcyc": rng.randint(0, ncyc), "tight": tight,
            "cap": rng.randint(1, 3), "skip": [tight and rng.random() < 0.25 for _ in range(ncyc)], "bolset": bolset}


def trace_driver(rig, ntraces, seed, big):
    rng = random.Random(seed * 104729 + 17)
    ad = RunAdapter(rig)
    go = ad.go
    traces = []
    for t in range(ntraces):
        cfg = random_cfg(rng, big)
        env = go.RandomEnv(random.Random(rng.random()), p_halt=0.12, p_conv=rng.choice([0.2, 0.5, 0.8]),
                           p_noise=rng.choice([0.0, 0.0, 0.1]))
        m = len(cfg["ifs"])
        order = list(range(1, m + 1))
        rng.shuffle(order)
        pre = None
        if rng.random() < 0.5:  # flag history: random flags at attach time, brought to the configuration's by the setters
            pre = [{"en": rng.random() < 0.5, "bf": rng.random() < 0.5, "rev": rng.random() < 0.5} for _ in cfg["ifs"]]
        got, err = ad.run(cfg, env, variant=0, order=order, pre=pre)
        ev = list(got)
        ev.append({"e": "EXC", "what": err} if err else {"e": "END"})
        traces.append({"id": "t%d" % t, "cfg": cfg, "ev": ev})
    return traces


def run_traces(rep, thorough, seed, rig, ntr=None):
    ntr = ntr or (1500 if thorough else 200)
    traces = trace_driver(rig, ntr, seed, thorough)
    bad, stats = tracecheck.validate("Operator_trace", "Operator_trace.cfg", MODDIR, traces, timeout=3000)
    rep.add_tlc("operator-trace-validation", stats["tlc"])
    rep.add_traces("operator-random-runs", len(traces), sum(len(t["ev"]) for t in traces),
                   "seeded random configurations (<= 4 cycles x 0..3 burn steps, any restart point, stacks of <= 5 with random "
                   "flags, cap 1..3, random exempt cycles, random halt / convergence answers) run by the real "
                   "Operator.operate(); every recorded call must be the next step of Operator.tla and the run must end in Done")
    rep.sample({"kind": "trace", "id": traces[0]["id"], "cfg": traces[0]["cfg"], "events": [_short(e) for e in traces[0]["ev"][:6]]})
    for b in bad:
        if "invariant" in b:
            rep.violation("trace:invariant:" + b["invariant"], "a recorded run drives Operator.tla into a state violating %s" %
                          b["invariant"], {"direction": "trace", "part": "trace", "tlc": b.get("tlc")})
            continue
        ev = b["trace"]["ev"]
        k = b["matched"]
        nxt = ev[k] if k < len(ev) else {}
        what = "recorded run is not a behaviour of Operator.tla at call %d (%s); configuration %s" % (
            k + 1, _short(nxt) if nxt.get("e") not in ("END", "EXC") else json.dumps(nxt), json.dumps(b["trace"]["cfg"]))
        if "mismatch" in b:
            what += "; the specification expects " + _short(b["mismatch"]["expected"])
        key = "trace:%s" % nxt.get("e", "?")
        prev = ev[k - 1] if k >= 1 else {}
        mm = b.get("mismatch", {}).get("expected")
        if prev.get("ret") and mm and mm["e"] == prev["e"] and instance_of(dict(mm, it=mm["it"])) == instance_of(prev) \
                and nxt.get("e") != "EXC":
            # the specification wants the next interface of the same event; the real run has left the event
            kind = "BOC" if prev["e"] == "BOC" else "other"
            key, what = SC_KEYS[kind], SC_WHAT[kind] + " " + what
        rep.violation(key, what,
                      {"direction": "trace", "part": "trace", "trace": b["trace"], "matched": k, "mismatch": b.get("mismatch")})
    return len(traces)


# ============================================================================================================
# part C: stack construction and dispatch with exclusions
# ============================================================================================================
class DispatchAdapter:
    """World = a real Operator whose stack is edited through addInterface / removeInterface; projection = the stack and,
    for every event x cycle x exclusion list the spec prints, the order in which the public entry point calls the hooks."""

    EV = {"BOL": "BOL", "BOC": "BOC", "EN": "EveryNode", "CPL": "Coupled", "EOC": "EOC", "EOL": "EOL"}

    def __init__(self, rig, dcyc, ncyc):
        from harness import gen_operator as go

        self.go, self.rig, self.dcyc, self.ncyc = go, rig, dcyc, ncyc

    def build(self, root):
        rig, go = self.rig, self.go
        hist, _, _ = run_history([1] * self.ncyc, 0)
        rig.configure(history=hist, settings={"deferredInterfacesCycle": self.dcyc, "tightCoupling": False,
                                              "deferredInterfaceNames": ["rec%d" % i for i in root["named"]],
                                              "tightCouplingSettings": {}, "cyclesSkipTightCouplingInteraction": []})
        o = rig.new_operator()
        rig.reset_time(0, 0)
        sink = []
        # the interfaces are persistent objects (fresh from Interface.__init__): detaching and re-attaching, and every flag
        # change, act on the same object through its public methods
        recs = {i: go.recorder_class(i, False)(rig.r, rig.cs, sink, go.ScriptEnv(), {}) for i in range(1, root.get("ni", 3) + 1)}
        return {"o": o, "sink": sink, "err": "", "recs": recs}

    def apply(self, w, a):
        o, go, rig = w["o"], self.go, self.rig
        w["err"] = ""
        try:
            if a["n"] == "Add":
                f = a["f"]
                kw = {"reverseAtEOL": f["rev"], "enabled": f["en"], "bolForce": f["bf"]}
                if a.get("at", -1) >= 0:
                    kw["index"] = a["at"]
                o.addInterface(w["recs"][a["i"]], **kw)
            elif a["n"] == "AddDuplicate":
                # a second object with the name of an attached one
                o.addInterface(go.recorder_class(a["i"], False)(rig.r, rig.cs, w["sink"], go.ScriptEnv(), {}))
            elif a["n"] == "SetEnabled":
                w["recs"][a["i"]].enabled(a["b"])
            elif a["n"] == "SetEnabledBad":
                w["recs"][a["i"]].enabled("yes")
            elif a["n"] == "SetBolForce":
                w["recs"][a["i"]].bolForce(a["b"])
            elif a["n"] == "SetReverse":
                w["recs"][a["i"]].reverseAtEOL = a["b"]
            elif a["n"] == "Remove":
                if not o.removeInterface(interfaceName="rec%d" % a["i"]):
                    w["err"] = "False"
            elif a["n"] == "RemoveAbsent":
                if not o.removeInterface(interfaceName="rec%d" % a["i"]):
                    w["err"] = "False"
            else:
                raise AssertionError("unknown action %r" % (a,))
        except (RuntimeError, ValueError) as ex:
            w["err"] = type(ex).__name__
        return w["err"]

    def project(self, w):
        o = w["o"]
        names = [i.name for i in o.getInterfaces()]
        out = {"stack": [int(n[3:]) for n in names], "err": w["err"], "q": {}}
        # the flags of every object (attached or not) as its public getters report them
        out["flags"] = [{"en": w["recs"][i].enabled(), "bf": w["recs"][i].bolForce(), "rev": w["recs"][i].reverseAtEOL}
                        for i in sorted(w["recs"])]
        return out

    def dispatch(self, w, ev, c, excl):
        """The calls the public entry point makes, and what getActiveInterfaces answers."""
        o, sink = w["o"], w["sink"]
        names = tuple("rec%d" % i for i in excl)
        act = [int(i.name[3:]) for i in o.getActiveInterfaces(self.EV[ev], excludedInterfaceNames=names, cycle=c)]
        del sink[:]
        self.rig.r.p.cycle = c
        if ev == "BOL":
            o.interactAllBOL(excludedInterfaceNames=names)
        elif ev == "BOC":
            o.interactAllBOC(c)
        elif ev == "EN":
            o.interactAllEveryNode(c, 0, excludedInterfaceNames=names)
        elif ev == "EOC":
            o.interactAllEOC(c, excludedInterfaceNames=names)
        elif ev == "EOL":
            o.interactAllEOL(excludedInterfaceNames=names)
        elif ev == "CPL":
            return act, act  # interactAllCoupled needs the bookkeeping of _performTightCoupling; its dispatch is covered by the runs
        called = [e["i"] for e in sink if e["e"] == ev]
        return act, called


def run_dispatch(rep, thorough, seed, rig, fut, cap=None):
    res = fut.result()
    rep.add_tlc("dispatch-graph", res, {"cfg": "OperatorDispatch_emit" + _sfx(thorough)})
    _tlc_verdict(rep, res, "OperatorDispatch")
    consts = [p for p in res.prints if isinstance(p, dict) and "dcyc" in p and "st" not in p]
    obs = {rp.skey(p["st"]): p["obs"] for p in res.prints if isinstance(p, dict) and "st" in p}
    edges = [p for p in res.prints if isinstance(p, dict) and "act" in p]
    if not edges or not consts:
        raise tlc.MachineryError("OperatorDispatch emission printed no edges")
    seen = {e["act"]["n"] for e in edges}
    need = {"Add", "AddDuplicate", "Remove", "RemoveAbsent", "SetEnabled", "SetEnabledBad", "SetBolForce", "SetReverse"}
    if not need <= seen:
        raise tlc.MachineryError("vacuous: OperatorDispatch actions never taken: %s" % (need - seen))
    K = consts[0]
    ad = DispatchAdapter(rig, K["dcyc"], K["ncyc"])
    for e in edges:
        o = obs.get(rp.skey(e["to"]))
        if o is not None:
            e["obs"] = {"stack": o["stack"], "flags": o["flags"], "err": e["err"]}
            e["_q"] = o["q"]
    edges = [e for e in edges if "obs" in e]
    g = rp.Graph(edges)
    root = {"named": K["named"]}
    n = nt = nq = 0
    rng = random.Random(seed)
    todo = list(g.edges)
    cap = cap or (None if thorough else 4000)
    if cap and len(todo) > cap:
        todo = rng.sample(todo, cap)
    for e in todo:
        path = g.path.get(e["_fk"])
        if path is None:
            continue
        w = ad.build(root)
        for s in path:
            ad.apply(w, s["act"])
        ad.apply(w, e["act"])
        got = ad.project(w)
        n += 1
        nt += 1 if e["_fk"] != e["_tk"] else 0
        d = rp.diff(e["obs"], got)
        if d:
            rep.violation("dispatch:%s:%s" % (e["act"]["n"], d.split(":")[0].split("[")[0]),
                          "real stack diverges from OperatorDispatch after %s: %s" % (json.dumps(e["act"]), d),
                          {"direction": "dispatch", "part": "dispatch", "path": [s["act"] for s in path] + [e["act"]],
                           "expected": e["obs"], "observed": got})
            continue
        for q in e["_q"]:
            act, called = ad.dispatch(w, q["ev"], q["c"], q["excl"])
            nq += 1
            if act != q["seq"] or called != q["seq"]:
                rep.violation("dispatch:%s:%s" % (q["ev"], "excluded" if q["excl"] else "order"),
                              "event %s cycle %d excluded %s on stack %s: the specification calls %s; getActiveInterfaces "
                              "answers %s; interactAll%s called %s" % (q["ev"], q["c"], q["excl"], got["stack"], q["seq"], act,
                                                                      DispatchAdapter.EV[q["ev"]], called),
                              {"direction": "dispatch", "part": "dispatch", "path": [s["act"] for s in path] + [e["act"]],
                               "query": q, "active": act, "called": called})
    rep.add_replay("stack-edges", n, nt,
                   "every edge of OperatorDispatch's graph (addInterface with/without index on persistent interface objects, "
                   "duplicate-name refusal, removeInterface, enabled(b) / bolForce(b) / reverseAtEOL = b, enabled(non-bool) "
                   "refusal) replayed on a real Operator through the public methods; in each reached state every (event, cycle, exclusion list) "
                   "query of the spec is answered by getActiveInterfaces and by the public interactAll* entry point")
    rep.extra["dispatch_queries"] = nq
    return n


# ============================================================================================================
def _sfx(thorough):
    return "_thorough.cfg" if thorough else ".cfg"


def _tlc_verdict(rep, res, module):
    if res.violation:
        rep.violation("tlc:%s:%s" % (module, res.violation["name"]),
                      "TLC: %s violated in the specification %s" % (res.violation["name"], module),
                      {"direction": "tlc", "trace": res.violation["trace"][:20000]})


def _nonvacuous(res, actions):
    never = [a for a in actions if res.coverage.get(a, (0, 0))[1] == 0]
    if never:
        raise tlc.MachineryError("vacuous: actions never taken: %s" % never)


def run(rep, tier, seed):
    thorough = tier == "thorough"
    for m in ("CycleArithmetic_mc", "Operator_mc", "Operator_trace", "OperatorDispatch_mc"):
        tlc.sany(m, MODDIR)
    sfx = "_thorough.cfg" if thorough else ".cfg"
    w_mc = 16 if thorough else 2  # the sandbox is shared and usually overloaded: more workers made quick slower
    pool = ThreadPoolExecutor(max_workers=5)
    f_op_mc = pool.submit(tlc.run, "Operator_mc", "Operator_mc" + sfx, MODDIR, workers=w_mc, want_prints=False, timeout=3000)
    f_op_emit = pool.submit(tlc.run, "Operator_mc", "Operator_emit" + sfx, MODDIR, workers=1, coverage=False, timeout=3000)
    # quick: CycleArithmetic_emit.cfg is itself exhaustive for its constants (all histories of <= 2 cycles, every law listed as
    # an invariant); the separate 3-cycle exhaustive run is part of the thorough tier
    f_ar_mc = pool.submit(tlc.run, "CycleArithmetic_mc", "CycleArithmetic_mc" + sfx, MODDIR, workers=8, want_prints=False,
                          timeout=3000) if thorough else None
    f_ar_emit = pool.submit(tlc.run, "CycleArithmetic_mc", "CycleArithmetic_emit" + sfx, MODDIR, workers=1, coverage=False, timeout=3000)
    f_disp = pool.submit(tlc.run, "OperatorDispatch_mc", "OperatorDispatch_emit" + sfx, MODDIR, workers=1, coverage=False, timeout=3000)

    from harness import gen_operator as go

    rig = go.Rig()
    # code -> spec first (needs no TLC output), while the TLC jobs run
    run_traces(rep, thorough, seed, rig)
    run_arith(rep, thorough, seed, rig, f_ar_mc, f_ar_emit)
    run_dispatch(rep, thorough, seed, rig, f_disp)
    res = f_op_mc.result()
    rep.add_tlc("operator-exhaustive", res, {"cfg": "Operator_mc" + sfx})
    _tlc_verdict(rep, res, "Operator")
    _nonvacuous(res, ("DoBOL", "Call", "SampleStart", "EndBOC", "EndEN", "EndCPL", "DbWrite", "EndEOC", "EndEOL"))
    run_replay(rep, thorough, seed, rig, f_op_emit, None if thorough else 6000)
    pool.shutdown()
    rep.exhaustive = True
    rep.extra["tolerances"] = {"lengths_rtol": RTOL, "stepLength_power_seen_in_hooks": "exact (1e-12 relative)"}
    rep.assume(
        "deferral (deferredInterfaceNames / deferredInterfacesCycle) acts on the BOL hook and on BOC hooks before the deferral "
        "cycle only, as getActiveInterfaces implements and upstream test_getActiveInterfaces asserts",
        "exclusion lists exist for interactAllBOL / EveryNode / EOC / EOL only (the other entry points take none)",
        "restart point = (r.p.cycle, r.p.timeNode) after the BOL event -- in place at entry of operate(), or written by the "
        "interactBOL of an interface of the stack (as MainInterface does for loadStyle=fromDB) -- inside the history "
        "(sc < nCycles, sn <= burnSteps[sc]); the database side of a restart is not exercised",
        "tightCouplingMaxNumIters = 0 with coupling on means no iteration",
        "simple input with burnSteps = 0 only for nCycles = 1 (settings validation refuses the rest); detailed 'step days' / "
        "'cumulative days' cycles have availability > 0; 'burn steps' + 'cycle length' cycles admit burn steps = 0 and availability = 0",
        "a cycle without burn steps has no step lengths: 'step lengths sum to availability x cycle length' constrains cycles with steps",
        "standard Operator on one process; OperatorMPI and OperatorSnapshots are not covered",
    )


# ============================================================================================================
def replay(payload):
    from harness import gen_operator as go

    rig = go.Rig()
    part = payload.get("part")
    if part == "arith":
        ad = ArithAdapter(rig)
        case, k = payload["case"], payload["k"]
        print("settings:", json.dumps(history_settings(case, k)))
        try:
            diffs = ad.check(case, k)
        except Exception as ex:  # noqa: BLE001
            diffs = [("exception", "%s: %s" % (type(ex).__name__, ex))]
        for fn, msg in diffs:
            print("  %s: %s" % (fn, msg))
        print("no difference" if not diffs else "%d difference(s)" % len(diffs))
        return 1 if diffs else 0
    if part == "run":
        ad = RunAdapter(rig)
        cfg, exp = payload["cfg"], payload["expected_log"]
        got, err = ad.run(cfg, env_from_log(go, exp), variant=payload.get("variant", 0), order=payload.get("order"),
                          pre=payload.get("pre"))
        _, sl, pw = run_history(cfg["steps"], payload.get("variant", 0))
        d = first_log_difference(exp, got, sl, pw, ad.canon)
        print("configuration:", json.dumps(cfg))
        if err:
            print("operate() raised", err)
        print(d[1] if d else "no divergence: the run conforms")
        return 1 if (d or err) else 0
    if part == "trace" and "trace" in payload:
        bad, _ = tracecheck.validate("Operator_trace", "Operator_trace.cfg", MODDIR, [payload["trace"]])
        print("trace rejected at call %d" % (bad[0]["matched"] + 1) if bad else "trace accepted")
        return 1 if bad else 0
    if part == "dispatch":
        ad = DispatchAdapter(rig, 1, 3)
        w = ad.build({"named": [2]})
        for a in payload["path"]:
            print("  %s -> %r" % (json.dumps(a), ad.apply(w, a)))
        got = ad.project(w)
        print("stack:", got["stack"], "flags:", got["flags"])
        if "query" in payload:
            q = payload["query"]
            act, called = ad.dispatch(w, q["ev"], q["c"], q["excl"])
            print("query %s: specification %s, getActiveInterfaces %s, called %s" % (json.dumps(q), q["seq"], act, called))
            return 1 if (act != q["seq"] or called != q["seq"]) else 0
        d = rp.diff(payload["expected"], got)
        print(d or "no divergence")
        return 1 if d else 0
    print("replay of part=%s: see payload" % part)
    return 0


# ============================================================================================================
# binding demonstration: in-process mutants of the anchored code that the check must report
# ============================================================================================================
class _Done:
    def __init__(self, r):
        self.r = r

    def result(self):
        return self.r


def _mutate(owner, name, old, new, count=1):
    """Re-compile one function / method of armi with a textual change (the way a realistic slip would look)."""
    import inspect
    import textwrap

    fn = getattr(owner, name)
    raw = fn.__func__ if hasattr(fn, "__func__") else fn
    src = inspect.getsource(raw)
    if src.count(old) < 1:
        raise tlc.MachineryError("mutant does not apply: %r not in %s" % (old, name))
    src = textwrap.dedent(src.replace(old, new, count))
    mod = inspect.getmodule(raw)
    ns = {}
    exec(compile(src, "<mutant %s>" % name, "exec"), mod.__dict__, ns)  # noqa: S102
    saved = owner.__dict__[name] if hasattr(owner, "__dict__") and name in owner.__dict__ else fn
    setattr(owner, name, ns[name])
    return owner, name, saved


def mutants():
    from armi import utils
    from armi.operators.operator import Operator as Op

    return [
        ("time-node range starts one late", Op, "_cycleLoop", "range(startingNode, int(", "range(startingNode + 1, int("),
        ("last node of the cycle dropped", Op, "_cycleLoop", "            self._timeNodeLoop(cycle, timeNode)\n\n        self.interactAllEOC",
         "            pass\n\n        self.interactAllEOC"),
        ("restart node applied to every cycle", Op, "_cycleLoop", "            startingNode = 0\n            self.r.p.timeNode = startingNode",
         "            startingNode = self.r.p.timeNode if self.r.p.timeNode <= self.burnSteps[cycle] else 0"),
        ("timeNode not written to the reactor", Op, "_timeNodeLoop", "self.r.p.timeNode = timeNode", "pass"),
        ("EveryNode arguments swapped", Op, "_timeNodeLoop", "self.interactAllEveryNode(cycle, timeNode)", "self.interactAllEveryNode(timeNode, cycle)"),
        ("start cycle read before the BOL event", Op, "_mainOperate",
         "        self.interactAllBOL()\n        startingCycle = self.r.p.cycle  # may be starting at t != 0 in restarts\n",
         "        startingCycle = self.r.p.cycle\n        self.interactAllBOL()\n"),
        ("halt skips EOL", Op, "_mainOperate", "            if not keepGoing:\n                break", "            if not keepGoing:\n                return"),
        ("EOC skipped in the last cycle", Op, "_cycleLoop", "        self.interactAllEOC(self.r.p.cycle)", "        if not self.atEOL:\n            self.interactAllEOC(self.r.p.cycle)"),
        ("bolForce cannot be cleared", __import__("armi.interfaces", fromlist=["Interface"]).Interface, "bolForce",
         "        if flag is None:\n            return self._bolForce", "        if not flag:\n            return self._bolForce"),
        ("enabled() setter ignores False", __import__("armi.interfaces", fromlist=["Interface"]).Interface, "enabled",
         "        elif isinstance(flag, bool):\n            self._enabled = flag", "        elif isinstance(flag, bool):\n            self._enabled = flag or self._enabled"),
        ("deferred interfaces called at BOL", Op, "getActiveInterfaces", "lambda i: i.name not in self.cs[CONF_DEFERRED_INTERFACE_NAMES]\n                and i.name not in excludedInterfaceNames",
         "lambda i: i.name not in excludedInterfaceNames"),
        ("deferral cycle compared with <=", Op, "getActiveInterfaces", "cycle < self.cs[CONF_DEFERRED_INTERFACES_CYCLE]", "cycle <= self.cs[CONF_DEFERRED_INTERFACES_CYCLE]"),
        ("bolForce ignored", Op, "getActiveInterfaces", "enabled = lambda i: i.enabled() or i.bolForce()", "enabled = lambda i: i.enabled()"),
        ("EOL reversal applied to every interface", Op, "getActiveInterfaces", "actInts = [ii for ii in activeInterfaces if not ii.reverseAtEOL]\n            actInts.extend(reversed([ii for ii in activeInterfaces if ii.reverseAtEOL]))",
         "actInts = list(reversed(activeInterfaces))"),
        ("reverse-flagged interfaces not reversed among themselves", Op, "getActiveInterfaces", "actInts.extend(reversed([ii for ii in activeInterfaces if ii.reverseAtEOL]))",
         "actInts.extend([ii for ii in activeInterfaces if ii.reverseAtEOL])"),
        ("exclusion list ignored at EOC", Op, "getActiveInterfaces", 'if interactState in ("EveryNode", "EOC", "EOL"):', 'if interactState in ("EveryNode", "EOL"):'),
        ("iteration cap off by one", Op, "_performTightCoupling", "range(self.cs[CONF_TIGHT_COUPLING_MAX_ITERS])", "range(self.cs[CONF_TIGHT_COUPLING_MAX_ITERS] + 1)"),
        ("coupling does not stop on convergence", Op, "_performTightCoupling", "                    break", "                    pass"),
        ("exempt cycles iterate anyway", Op, "_performTightCoupling", "if cycle in skipCycles:", "if False:"),
        ("convergence needs any coupler instead of all", Op, "_checkTightCouplingConvergence", "return all(converged)", "return any(converged) or not converged"),
        ("addInterface ignores index", Op, "addInterface", "self.interfaces.insert(index, interface)", "self.interfaces.append(interface)"),
        ("BOC receives the previous cycle", Op, "interactAllBOC", 'return self._interactAll("BOC", activeInterfaces, cycle)', 'return self._interactAll("BOC", activeInterfaces, max(cycle - 1, 0))'),
        ("power of the last node taken from the first step", Op, "_cycleLoop", "powFrac = self.powerFractions[cycle][timeNode - 1]", "powFrac = self.powerFractions[cycle][0]"),
        ("cumulative node number counts steps not nodes", utils, "getNodesPerCycle", "[s + 1 for s in getBurnSteps(cs)]", "[max(s, 1) for s in getBurnSteps(cs)]"),
        ("cumulative node -> (cycle, node) boundary", utils, "getCycleNodeFromCumulativeNode", "if timeNodeNum < cNodes:", "if timeNodeNum <= cNodes:"),
        ("cumulative step -> node off by one", utils, "getCycleNodeFromCumulativeStep", "return (i, timeStepNum - (cSteps - stepsPerCycle[i]) - 1)", "return (i, timeStepNum - (cSteps - stepsPerCycle[i]))", ),
        ("previous node of (c, 0) is one past the end", utils, "getPreviousTimeNode", "indexOfLastNode = nodesInLastCycle - 1", "indexOfLastNode = nodesInLastCycle"),
        ("simple step lengths ignore availability", utils, "_getStepAndCycleLengths", "for length in cycleLengthsModifiedByAvailability", "for length in cycleLengths"),
        ("cumulative days not differenced", utils, "_getStepAndCycleLengths", "stepLengths.append(getStepsFromValues(cumulativeDays))", "stepLengths.append([float(d) for d in cumulativeDays])"),
        ("detailed cycle length not divided by availability", utils, "_getStepAndCycleLengths", "else sum(cycleStepLengths) / aFactor", "else sum(cycleStepLengths)"),
    ]


def selftest():
    """Run the Python side of the check (TLC artifacts computed once) under each mutant; a mutant is caught when the check
    reports a violation key that the unchanged tree does not produce.  Also corrupts recorded traces."""
    from harness import gen_operator as go
    from harness.report import Report

    for m in ("CycleArithmetic_mc", "Operator_mc", "Operator_trace", "OperatorDispatch_mc"):
        tlc.sany(m, MODDIR)
    pool = ThreadPoolExecutor(max_workers=3)
    fa = pool.submit(tlc.run, "CycleArithmetic_mc", "CycleArithmetic_emit.cfg", MODDIR, workers=1, coverage=False)
    fo = pool.submit(tlc.run, "Operator_mc", "Operator_emit.cfg", MODDIR, workers=1, coverage=False)
    fd = pool.submit(tlc.run, "OperatorDispatch_mc", "OperatorDispatch_emit.cfg", MODDIR, workers=1, coverage=False)
    arts = [_Done(f.result()) for f in (fa, fo, fd)]
    pool.shutdown()
    rig = go.Rig()

    def keys():
        rep = Report("C15", "selftest", 0)
        run_traces(rep, False, 0, rig, ntr=80)
        run_arith(rep, False, 0, rig, None, arts[0], max_cases=1500)
        run_dispatch(rep, False, 0, rig, arts[2], cap=500)
        run_replay(rep, False, 0, rig, arts[1], 1500)
        return {v["key"] for v in rep.violations}

    base = keys()
    print("baseline keys on the tree under test: %s" % (sorted(base) or "none"))
    missed = 0
    for mt in mutants():
        label, owner, name, old, new = mt[:5]
        try:
            owner, name, saved = _mutate(owner, name, old, new)
        except tlc.MachineryError as ex:
            print("SKIPPED  %-58s (%s)" % (label, ex))
            missed += 1
            continue
        try:
            new_keys = sorted(keys() - base)
        finally:
            setattr(owner, name, saved)
        if new_keys:
            print("caught   %-58s %s" % (label, ", ".join(new_keys[:4])))
        else:
            print("MISSED   %-58s" % label)
            missed += 1
    # the trace validator itself: a corrupted field and a removed call must both be rejected
    traces = trace_driver(rig, 40, 5, False)
    good = [t for t in traces if t["ev"][-1].get("e") == "END" and len(t["ev"]) > 6]
    bad_now, _ = tracecheck.validate("Operator_trace", "Operator_trace.cfg", MODDIR, good)
    rejected = {b["trace"]["id"] for b in bad_now}
    good = [t for t in good if t["id"] not in rejected][:10]
    corrupted = []
    for t in good:
        a = json.loads(json.dumps(t))
        a["id"] += "-field"
        a["ev"][3]["rn"] += 1
        b = json.loads(json.dumps(t))
        b["id"] += "-removed"
        del b["ev"][len(b["ev"]) // 2]
        corrupted += [a, b]
    bad, _ = tracecheck.validate("Operator_trace", "Operator_trace.cfg", MODDIR, corrupted)
    if len(bad) == len(corrupted) and corrupted:
        print("caught   corrupted traces: %d of %d rejected" % (len(bad), len(corrupted)))
    else:
        print("MISSED   corrupted traces: %d of %d rejected" % (len(bad), len(corrupted)))
        missed += 1
    return 1 if missed else 0
