"""C12 -- axial expansion: TLC exhaustive runs of spec/axexp/AxialExpansion.tla, every emitted behaviour (design, calls,
expected observation) executed on real armi assemblies with AxialExpansionChanger, static target/link cases, recorded
random histories validated by TLC, and the statement's literal clauses that TLC refutes confirmed on the real code."""
import json
import os
import random
from fractions import Fraction

from harness import common, tlc, tracecheck
from harness import gen_axexp as gen
from harness import replay as rp
from harness.armi_env import armi_ready

MODDIR = os.path.join(common.SPEC, "axexp")
MOD = "AxialExpansion_mc"

# rtol: every observed number is a handful of double operations away from the exact rational (products/sums of at most
# ~10 factors); atol: elevations are O(10) cm and a degenerate block height is an exact 0 in the specification, the
# real difference of two ~10 cm doubles may be a few 1e-15.
RTOL = 1e-9
ATOL = 1e-12

CLAUSES = ("TargetMassConserved", "UniformBlockMassConserved", "PositiveHeights")
_SELFTEST = False
_CACHE = {}


# ------------------------------------------------------------------------------------------------------------
# representation: the specification prints rationals as [n, d]
# ------------------------------------------------------------------------------------------------------------
def q(x):
    return x[0] / x[1]


def obs_to_float(o):
    """same structure, rationals -> floats (a change of representation only)"""
    out = dict(o)
    for k in ("zb", "zt", "h", "zmid", "mesh", "locz"):
        out[k] = [q(x) for x in o[k]]
    for k in ("total", "hsum", "fluid"):
        out[k] = q(o[k])
    out["comp"] = [[dict(c, **{f: q(c[f]) for f in ("h", "zb", "zt", "lin", "T", "ndr", "mass")}) for c in blk] for blk in o["comp"]]
    return out


# ------------------------------------------------------------------------------------------------------------
# adapter
# ------------------------------------------------------------------------------------------------------------
class Adapter:
    def __init__(self, CT, BT):
        armi_ready()
        self.CT, self.BT = CT, BT

    def build(self, A, fresh=False):
        """A = the design as the specification prints it with a case (the CURRENT design of the case's last state; types0 / expl
        are what the assembly is built with).  fresh: a new changer object for every call instead of one re-used changer."""
        chg_cls, link_cls = gen.changer_class(A.get("rule", "default"))
        a = gen.build_assembly(A, self.CT, self.BT)
        types0 = list(A.get("types0", A["types"])) + ([A["top"]] if A.get("top") else [""])
        names = [list(self.BT[t]["comps"]) if t else [] for t in types0]
        w = {"A": A, "a": a, "chg_cls": chg_cls, "link_cls": link_cls, "fresh": fresh, "chg": self.new_changer(A, chg_cls),
             "err": "", "broken": False, "init": {}, "names": names, "solid": [[self.CT[n]["solid"] for n in ns] for ns in names]}
        for ib, b in enumerate(a):
            self.baseline(w, ib, b)
        return w

    @staticmethod
    def new_changer(A, chg_cls):
        return chg_cls(detailedAxialExpansion=bool(A["det"]))

    @staticmethod
    def baseline(w, ib, b, key="ref"):
        """as-built number densities, area and mass of every component of block ib (the reference for the relative observations)"""
        for c in b:
            w["init"][(key, ib, c.name)] = (dict(c.getNumberDensities()), c.getArea(), c.getMass())

    def modelled(self, w):
        """components of the model, block by block incl. the top block (the coolant / intercoolant every block carries and
        the coolant of a dummy top are outside it)"""
        return [[b.getComponentByName(n) for n in w["names"][ib]] for ib, b in enumerate(w["a"])]

    def solids(self, w):
        from armi.reactor.converters.axialExpansionChanger.expansionData import iterSolidComponents

        return [list(iterSolidComponents(b)) for b in w["a"]]

    def apply(self, w, act):
        a = w["a"]
        n = act["n"]
        w["err"] = ""
        if n == "ReplaceBlock":
            # Block.replaceBlockWithBlock with a freshly built block of the given type (as-built height) that carries the designated target
            ib = act["b"] - 1
            repl = gen.make_block(act["t"], self.BT[act["t"]], self.CT, w["A"]["hs"][ib], w["A"].get("hot", 0))
            if act["e"]:
                repl.setAxialExpTargetComp(repl.getComponentByName(act["e"]))
            self.baseline(w, ib, repl)
            a[ib].replaceBlockWithBlock(repl)
            w["names"][ib] = list(self.BT[act["t"]]["comps"])
            w["solid"][ib] = [self.CT[x]["solid"] for x in w["names"][ib]]
            return ""
        if n == "EditMult":
            a[act["b"] - 1].getComponentByName(w["names"][act["b"] - 1][act["i"] - 1]).setDimension("mult", float(act["m"]))
            return ""
        if w["fresh"]:
            w["chg"] = self.new_changer(w["A"], w["chg_cls"])
        chg = w["chg"]
        try:
            if n in ("Prescribed", "PrescribedBad"):
                comps, fr = [], []
                mod = self.modelled(w)[:-1]  # factors are given for the blocks below the top block
                if n == "Prescribed":
                    for ib, blk in enumerate(mod):
                        for ic, c in enumerate(blk):
                            g = act["g"][ib][ic]
                            if not w["solid"][ib][ic]:
                                continue
                            if act["kind"] == "sparse" and g == [1, 1]:
                                continue  # components that are not listed keep factor 1.0 (ExpansionData.getExpansionFactor default)
                            comps.append(c)
                            fr.append(q(g))
                else:
                    comps = [c for ib, blk in enumerate(mod) for ic, c in enumerate(blk) if w["solid"][ib][ic]]
                    fr = [1.0] * len(comps)
                    if act["kind"] == "zero":
                        fr[0] = 0.0
                    elif act["kind"] == "negative":
                        fr[-1] = -0.1
                    else:
                        fr = fr[:-1]
                chg.performPrescribedAxialExpansion(a, comps, fr, setFuel=act["setFuel"])
            elif n in ("Thermal", "ThermalBadLen"):
                grid = gen.temp_grid(w["A"]["ng"])
                if n == "Thermal":
                    field = gen.temp_field(act["field"])
                    chg.performThermalAxialExpansion(a, grid, field, setFuel=act["setFuel"], expandFromTinputToThot=act["fromInput"])
                else:
                    chg.performThermalAxialExpansion(a, grid, [gen.T0] * (len(grid) - 1), setFuel=act["setFuel"])
            else:
                raise AssertionError("unknown action " + n)
        except (RuntimeError, ValueError, ArithmeticError) as ex:
            if isinstance(ex, (ZeroDivisionError, OverflowError, FloatingPointError)):
                raise
            w["err"] = type(ex).__name__
            if isinstance(ex, ArithmeticError):
                w["broken"] = True
        if not w["err"] and n in ("Prescribed", "Thermal"):
            w["expanded"] = True  # the construction-time unit grid has been replaced by elevations
        return w["err"]

    def project(self, w):
        from armi.materials.material import Fluid
        a = w["a"]
        mod = self.modelled(w)
        placed = any(hasattr(c, "zbottom") for blk in mod for c in blk)
        try:
            links = w["link_cls"](a).linkedComponents
        except RuntimeError:
            links = None

        def ratio(c, ib):
            nd0, area0, m0 = w["init"][("ref", ib, c.name)]
            nd = c.getNumberDensities()
            rs = [nd.get(k, 0.0) / v for k, v in nd0.items() if v > 0.0]
            if not rs or set(nd) != set(nd0):
                return "nuclide set changed"
            lo, hi = min(rs), max(rs)
            if hi - lo > 1e-12 * hi:
                return "nuclides scaled differently: %r..%r" % (lo, hi)
            return hi

        comp = []
        for ib, blk in enumerate(mod):
            row = []
            for c in blk:
                nd0, area0, m0 = w["init"][("ref", ib, c.name)]
                r = ratio(c, ib)
                solid = not isinstance(c.material, Fluid)
                row.append({
                    "name": c.name,
                    "solid": solid,
                    "h": float(getattr(c, "height", 0.0)),
                    "zb": float(getattr(c, "zbottom", 0.0)),
                    "zt": float(getattr(c, "ztop", 0.0)),
                    "lin": r * c.getArea() / area0 if isinstance(r, float) else r,
                    "T": (c.temperatureInC - gen.T0) / gen.DT,
                    "ndr": r,
                    "mass": 0.0 if w["broken"] else c.getMass() / m0,  # not observed in a half-updated assembly (see ObsMass)
                    "lower": "" if links is None or c not in links or links[c].lower is None else links[c].lower.name,
                    "upper": "" if links is None or c not in links or links[c].upper is None else links[c].upper.name,
                })
            comp.append(row)
        fl = [ratio(c, ib) for ib, b in enumerate(a) for c in b if isinstance(c.material, Fluid)]
        bad = [x for x in fl if not isinstance(x, float)]
        return {
            "zb": [float(b.p.zbottom) for b in a],
            "zt": [float(b.p.ztop) for b in a],
            "h": [float(b.p.height) for b in a],
            "zmid": None if w["broken"] else [float(b.p.z) for b in a],  # p.z of the blocks above a failing one is stale
            "mesh": [float(x) for x in a.spatialGrid._bounds[2]] if w.get("expanded") else [],
            "placed": placed,
            "broken": w["broken"],
            "err": w["err"],
            "loc": [int(b.spatialLocator.k) for b in a],
            "locz": [float(b.spatialLocator.getLocalCoordinates()[2]) for b in a] if w.get("expanded") else [],
            "total": float(a[-1].p.ztop),
            "hsum": float(a.getTotalHeight()),
            "fluid": bad[0] if bad else max(fl, key=lambda x: abs(x - 1.0)),
            "tname": [b.p.axialExpTargetComponent or "" for b in a],
            "comp": comp,
        }


class CoreAdapter(Adapter):
    """the reference assembly (the Adapter's world) inside a real Core with follower assemblies; Manage = manageCoreMesh"""

    def build_core(self, A, F, fresh=False):
        from armi.reactor import geometry, grids, reactors
        from armi.reactor.converters.axialExpansionChanger.axialExpansionChanger import makeAssemsAbleToSnapToUniformMesh
        from armi.reactor.flags import Flags

        w = self.build(A, fresh)
        r = reactors.Reactor("c12", None)
        core = reactors.Core("core")
        r.add(core)
        core.spatialGrid = grids.HexGrid.fromPitch(20.0)
        core.spatialGrid.symmetry = geometry.SymmetryType(geometry.DomainType.FULL_CORE, geometry.BoundaryType.NO_SYMMETRY)
        core.spatialGrid.armiObject = core
        core.spatialGrid.geomType = geometry.GeomType.HEX
        ref = w["a"]
        ref.setType("fuel", Flags.FUEL)
        fols = []
        for f in F:
            a = gen.build_assembly({"types": f["types"], "hs": f["hs"], "hd": f["hd"], "top": "", "expl": [""] * (len(f["types"]) + 1), "hot": 0},
                                   self.CT, self.BT)
            a.setType("fuel" if f["fuel"] else "control", Flags.FUEL if f["fuel"] else Flags.CONTROL)
            fols.append(a)
        places = [(0, 0), (1, 0), (0, 1), (-1, 1), (-1, 0), (0, -1), (1, -1)]
        for a, (i, j) in zip([ref] + fols, places):
            for b in a:
                b.p.axMesh = 1  # what the blueprints set; Core.updateAxialMesh divides by it
            core.add(a, core.spatialGrid[i, j, 0])
        if core.refAssem is not ref:
            raise tlc.MachineryError("the reference assembly of the built core is not the modelled one")
        makeAssemsAbleToSnapToUniformMesh(core.getAssemblies(), [], core.refAssem)
        w.update(r=r, fols=fols, F=F)
        for k, a in enumerate(fols):
            for ib, b in enumerate(a):
                self.baseline(w, ib, b, key="fol%d" % k)
        return w

    def save_load(self, w):
        """Database.writeToDB ; Database.load of the whole reactor; the world continues with the loaded objects"""
        from armi import settings
        from armi.bookkeeping.db.database import Database
        from armi.reactor import blueprints

        r = w["r"]
        r.p.cycle, r.p.timeNode = 0, w.get("ndb", 0)
        w["ndb"] = w.get("ndb", 0) + 1
        if "dbdir" not in w:
            w["dbdir"] = common.workdir("c12db")
        fn = os.path.join(w["dbdir"], "c12-%d-%d.h5" % (id(w), w["ndb"]))
        cwd = os.getcwd()
        os.chdir(w["dbdir"])  # armi moves the finished file into the working directory
        import sys

        sys.stdout.flush()
        sys.stderr.flush()
        saved = os.dup(1), os.dup(2)
        null = os.open(os.devnull, os.O_WRONLY)
        os.dup2(null, 1)  # the loader prints banners and `mv` complains about moving the file onto itself
        os.dup2(null, 2)
        try:
            db = Database(fn, "w")
            db.open()
            try:
                db.writeToDB(r)
                r2 = db.load(0, r.p.timeNode, cs=settings.Settings(), bp=blueprints.Blueprints(), allowMissing=True)
            finally:
                db.close()
        finally:
            sys.stdout.flush()
            sys.stderr.flush()
            os.dup2(saved[0], 1)
            os.dup2(saved[1], 2)
            for fd in (null,) + saved:
                os.close(fd)
            os.chdir(cwd)
            if os.path.exists(fn):
                os.remove(fn)
        by = {tuple(a.spatialLocator.getCompleteIndices()[:2]): a for a in r2.core}
        places = [(0, 0), (1, 0), (0, 1), (-1, 1), (-1, 0), (0, -1), (1, -1)]
        w["r"], w["a"] = r2, by[places[0]]
        w["fols"] = [by[places[k + 1]] for k in range(len(w["fols"]))]
        if r2.core.refAssem is not w["a"]:
            raise tlc.MachineryError("the reference assembly of the loaded core is not the modelled one")
        w["expanded"] = True  # the loaded assembly grids carry the elevations

    def apply(self, w, act):
        if act["n"] == "Manage":
            w["err"] = ""
            w["chg"].manageCoreMesh(w["r"])
            if not w["A"]["det"]:
                w["expanded"] = True  # calculateZCoords has put the elevations into the reference assembly's grid
            return ""
        if act["n"] == "SaveLoad":
            w["err"] = ""
            self.save_load(w)
            return ""
        return Adapter.apply(self, w, act)

    def project_core(self, w):
        out = []
        for k, (a, f) in enumerate(zip(w["fols"], w["F"])):
            comp = []
            for ib, b in enumerate(a):
                row = []
                for n in f["names"][ib]:
                    c = b.getComponentByName(n)
                    nd0, area0, m0 = w["init"][("fol%d" % k, ib, n)]
                    nd = c.getNumberDensities()
                    rs = [nd.get(k, 0.0) / v for k, v in nd0.items() if v > 0.0]
                    r = max(rs) if max(rs) - min(rs) <= 1e-12 * max(rs) else "nuclides scaled differently"
                    row.append({"name": n, "lin": r * c.getArea() / area0 if isinstance(r, float) else r, "mass": c.getMass() / m0})
                comp.append(row)
            bounds = [float(x) for x in a.spatialGrid._bounds[2]]
            out.append({"h": [float(b.p.height) for b in a], "zt": [float(b.p.ztop) for b in a], "zb": [float(b.p.zbottom) for b in a],
                        "comp": comp, "_bounds": bounds, "_total": float(a.getTotalHeight())})
        cm = w["r"].core.p.axialMesh
        return out, ([] if cm is None else [float(x) for x in cm])


def run_core_case(ad, case):
    w = ad.build_core(case["A"], case["F"], fresh_policy(case))
    path = case["path"]
    try:
        for act in path:
            ad.apply(w, act)
        got = ad.project(w)
        fgot, cm = ad.project_core(w)
    except Exception as ex:  # noqa: BLE001
        import traceback

        return {"first_difference": ".exception: %s escaped from the real code: %s" % (type(ex).__name__, str(ex)[:300]), "A": case["A"],
                "F": case["F"], "behaviour": path, "action": path[-1] if path else {"n": "Init"}, "expected": case["obs"],
                "observed": {"exception": traceback.format_exc()[-2000:]}}
    d = compare(obs_to_float(case["obs"]), got)
    if not d:
        fexp = [{"h": [q(x) for x in f["h"]], "zt": [q(x) for x in f["zt"]], "zb": [q(x) for x in f["zb"]],
                 "comp": [[dict(c, lin=q(c["lin"]), mass=q(c["mass"])) for c in blk] for blk in f["comp"]]} for f in case["fobs"]]
        d = rp.diff({"fol": fexp, "coreMesh": [q(x) for x in case["coreMesh"]]}, {"fol": fgot, "coreMesh": cm}, rtol=RTOL, atol=ATOL)
        # the follower's own grid bounds must be its elevations after a snap (calculateZCoords)
        if not d and path and path[-1]["n"] == "Manage" and not case["A"]["det"]:
            for i, f in enumerate(fgot):
                d = d or rp.diff({"bounds": [0.0] + f["zt"]}, {"bounds": f["_bounds"]}, ".fol[%d]" % i, rtol=RTOL, atol=ATOL)
    if d:
        return {"first_difference": d, "A": case["A"], "F": case["F"], "behaviour": path, "action": path[-1] if path else {"n": "Init"},
                "expected": {"obs": case["obs"], "fobs": case["fobs"], "coreMesh": case["coreMesh"]}, "observed": {"ref": got, "fol": fgot, "coreMesh": cm}}
    return None


def compare(exp, got):
    e = dict(exp)
    g = dict(got)
    if g.get("zmid") is None:
        e.pop("zmid", None)
    return rp.diff(e, g, rtol=RTOL, atol=ATOL)


def fresh_policy(case):
    """one changer object re-used for all calls of the behaviour, or a fresh one per call -- the specification does not
    distinguish them (setAssembly starts from scratch), so this is only a choice of how to drive the real code"""
    import zlib

    return zlib.crc32(json.dumps(case["path"], sort_keys=True).encode()) % 3 == 0


def run_case(ad, case, check_all=False):
    """build the design, apply the calls, compare the final (or every) observation.  -> divergence dict or None"""
    w = ad.build(case["A"], fresh_policy(case))
    path = case["path"]
    try:
        for act in path:
            ad.apply(w, act)
        got = ad.project(w)
    except Exception as ex:  # noqa: BLE001  an exception other than the modelled refusals is a verdict (see guide)
        import traceback

        return {"first_difference": ".exception: %s escaped from the real code: %s" % (type(ex).__name__, str(ex)[:300]),
                "A": case["A"], "behaviour": path, "action": path[-1] if path else {"n": "Init"},
                "expected": case["obs"], "observed": {"exception": traceback.format_exc()[-2000:]}}
    d = compare(obs_to_float(case["obs"]), got)
    if d:
        return {"first_difference": d, "A": case["A"], "behaviour": path, "action": path[-1] if path else {"n": "Init"},
                "expected": case["obs"], "observed": got}
    return None


def key_of(div, fam):
    import re

    a = div["action"]
    what = a["n"] + (":" + a["kind"] if "kind" in a else "")
    return "%s:%s:%s" % (fam, what, re.sub(r"\[\d+\]", "", div["first_difference"].split(":")[0]))


# ------------------------------------------------------------------------------------------------------------
def emit(cfg, timeout=3000, mod=MOD):
    if cfg not in _CACHE:
        res = tlc.run(mod, cfg, MODDIR, workers=1, coverage=False, timeout=timeout)
        cat = [p for p in res.prints if isinstance(p, dict) and "CT" in p]
        cases = [p for p in res.prints if isinstance(p, dict) and "path" in p]
        if not cat or not cases:
            raise tlc.MachineryError("emission %s produced no catalogue / no cases\n%s" % (cfg, res.out[-2000:]))
        _CACHE[cfg] = (res, cat[0], cases)
    return _CACHE[cfg]


def action_census(cases):
    c = {}
    for k in cases:
        if k["path"]:
            a = k["path"][-1]
            name = "%s%s/%s" % (a["n"], ":" + a["kind"] if "kind" in a else "", k["obs"]["err"] or "ok")
            c[name] = c.get(name, 0) + 1
    return c


NEEDED = ("Prescribed:sparse/RuntimeError", "Prescribed:sparse/ok", "Prescribed:uniform/ok", "Prescribed:uniform/ArithmeticError", "Thermal/ok", "Thermal/ValueError",
          "PrescribedBad:zero/RuntimeError", "PrescribedBad:length/RuntimeError", "ThermalBadLen/RuntimeError")


def run(rep, tier, seed):
    thorough = tier == "thorough"
    sfx = "_thorough" if thorough else ""
    rng = random.Random(seed)
    tlc.sany(MOD, MODDIR)
    tlc.sany("AxialExpansion_trace", MODDIR)
    tlc.sany("CoreMesh_mc", MODDIR)
    rep.exhaustive = True

    # 1. exhaustive model checking: all clauses that hold, the exact laws, refusals.  (-coverage makes TLC's cost model
    #    explode on this module's operator DAG, so non-vacuity is measured on the emitted behaviours below.)
    if not _SELFTEST:
        for cfg in ("AxialExpansion_mc%s.cfg" % sfx, "AxialExpansion_deep%s.cfg" % sfx, "CoreMesh_mc%s.cfg" % sfx):
            res = tlc.run("CoreMesh_mc" if cfg.startswith("Core") else MOD, cfg, MODDIR, want_prints=False, coverage=False, timeout=3000)
            rep.add_tlc("exhaustive:" + cfg, res)
            if res.violation:
                rep.violation("tlc:" + res.violation["name"], "TLC: %s violated in the specification (%s)" % (res.violation["name"], cfg),
                              {"direction": "tlc", "cfg": cfg, "trace": res.violation["trace"][:20000]})
            elif res.distinct < 1000:
                raise tlc.MachineryError("exhaustive run %s explored only %d states" % (cfg, res.distinct))

    # 2. the statement's literal clauses, one TLC run each: refuted by TLC on the transcription of the code
    refuted = {}
    if not _SELFTEST:
        for cl in CLAUSES:
            res = tlc.run(MOD, "AxialExpansion_lit_%s.cfg" % cl, MODDIR, want_prints=False, coverage=False, timeout=3000)
            rep.add_tlc("literal-clause:" + cl, res)
            if res.violation:
                if res.violation["name"] != cl:
                    raise tlc.MachineryError("literal run for %s reported %s" % (cl, res.violation["name"]))
                refuted[cl] = res.violation["trace"][:6000]
    else:
        refuted = {cl: "" for cl in CLAUSES}

    # 3. spec -> code: behaviours of the emission instance and the static cases on real assemblies
    for fam, cfg, cap in (("replay", "AxialExpansion_emit%s.cfg" % sfx, 2000 if _SELFTEST else 36000 if thorough else 2200),
                          ("hist", "AxialExpansion_hist%s.cfg" % sfx, 500 if _SELFTEST else 5000 if thorough else 450),
                          ("cases", "AxialExpansion_cases%s.cfg" % sfx, None)):
        eres, cat, cases = emit(cfg)
        rep.add_tlc("behaviours:" + cfg, eres)
        census = action_census(cases)
        if eres.violation:
            rep.violation("tlc:" + eres.violation["name"], "TLC: %s violated in the specification (%s)" % (eres.violation["name"], cfg),
                          {"direction": "tlc", "cfg": cfg, "trace": eres.violation["trace"][:20000]})
        if fam == "hist" and not (census.get("ReplaceBlock/ok") and census.get("EditMult/ok")):
            raise tlc.MachineryError("vacuous: no ReplaceBlock / EditMult in %s (%s)" % (cfg, census))
        if fam == "replay":
            missing = [n for n in NEEDED if not census.get(n)]
            if missing:
                raise tlc.MachineryError("vacuous: %s never occur in %s (%s)" % (missing, cfg, census))
            rep.extra["actions"] = census
        ad = Adapter(cat["CT"], cat["BT"])
        todo = cases
        if cap is not None and len(cases) > cap:
            # always keep the short behaviours, sample the rest
            short = [c for c in cases if len(c["path"]) <= 1]
            rest = [c for c in cases if len(c["path"]) > 1]
            todo = short + rng.sample(rest, max(0, cap - len(short)))
        n = nt = 0
        divs = {}
        for c in todo:
            d = run_case(ad, c)
            n += 1
            nt += 1 if c["path"] and not c["obs"]["err"] in ("RuntimeError",) else 0
            if d:
                k = key_of(d, fam)
                if k not in divs:
                    divs[k] = d
                    if len(divs) >= 25:
                        break
        if n == 0:
            raise tlc.MachineryError("nothing replayed for " + cfg)
        rep.add_replay(fam, n, nt,
                       "every emitted behaviour (design, explicit targets, <= 2 calls, expected observation computed by TLC) is "
                       "executed on a freshly built armi assembly; non-trivial = the last call is not a RuntimeError refusal")
        for k, d in divs.items():
            rep.violation(k, "real assembly diverges from AxialExpansion after %s: %s" % (json.dumps(d["action"])[:300], d["first_difference"]),
                          dict(d, direction="replay"))
        mid = cases[len(cases) // 2]
        rep.sample({"kind": fam, "design": {k: mid["A"][k] for k in ("types", "hs", "top", "hd", "det", "hot", "expl")}, "calls": mid["path"],
                    "expected": {k: mid["obs"][k] for k in ("zt", "h", "err", "tname")}})

        # 3b. the refuted literal clauses: shortest refuting behaviour, measured on the real code
        if fam == "replay":
            for cl in CLAUSES:
                if cl not in refuted:
                    continue
                cands = [c for c in cases if not c["lit"][cl] and c["path"][-1]["n"] == "Prescribed"]
                if not cands and _SELFTEST:
                    continue
                if not cands:
                    raise tlc.MachineryError("TLC refutes %s but the emission instance has no refuting behaviour" % cl)
                c = min(cands, key=lambda c: (len(c["path"]), len(json.dumps(c["path"]))))
                m = measure_clause(ad, c, cl)
                if m["confirmed"]:
                    rep.violation("clause:" + cl, CLAUSE_TEXT[cl] % m["text"],
                                  {"direction": "clause", "clause": cl, "A": c["A"], "behaviour": c["path"], "measured": m,
                                   "tlc": refuted[cl]})
                elif not any(v["key"].startswith("replay:") for v in rep.violations):
                    raise tlc.MachineryError("TLC refutes %s, the real code conforms to the model, yet the measurement does not show it: %s" % (cl, m))

    # 3c. core level: reference assembly + followers in a real Core, calls interleaved with manageCoreMesh
    ccfg = "CoreMesh_emit%s.cfg" % sfx
    cres, ccat, ccases = emit(ccfg, mod="CoreMesh_mc")
    rep.add_tlc("behaviours:" + ccfg, cres)
    if not any(c["path"] and c["path"][-1]["n"] == "Manage" and len(c["path"]) > 1 for c in ccases):
        raise tlc.MachineryError("vacuous: no Manage after a call in " + ccfg)
    cad = CoreAdapter(ccat["CT"], ccat["BT"])
    ccap = 120 if _SELFTEST else 3000 if thorough else 220
    has = lambda c, n: any(a["n"] == n for a in c["path"])  # noqa: E731
    managed = [c for c in ccases if has(c, "Manage")]
    dbs = [c for c in ccases if has(c, "SaveLoad") and not has(c, "Manage")]
    others = [c for c in ccases if not has(c, "Manage") and not has(c, "SaveLoad")]
    if not dbs:
        raise tlc.MachineryError("vacuous: no database round trip in " + ccfg)
    ctodo = ccases if len(ccases) <= ccap else (rng.sample(managed, min(len(managed), ccap // 2)) + rng.sample(dbs, min(len(dbs), ccap // 4))
                                                + rng.sample(others, min(len(others), ccap // 4)))
    n = 0
    divs = {}
    for c in ctodo:
        d = run_core_case(cad, c)
        n += 1
        if d:
            divs.setdefault(key_of(d, "core"), d)
            if len(divs) >= 15:
                break
    rep.add_replay("core", n, sum(1 for c in ctodo if c["path"]),
                   "core level: a real Core with the reference assembly and 3-4 follower assemblies (same column, coarser fuel column, "
                   "control assembly, duct block below the fuel); every emitted behaviour (calls on the reference assembly interleaved with "
                   "manageCoreMesh and with database round trips (Database.writeToDB ; load)) is executed and all assemblies are compared (heights, elevations, densities, masses, grid bounds, core mesh)")
    for k, d in divs.items():
        rep.violation(k, "real core diverges from CoreMesh after %s: %s" % (json.dumps(d["action"])[:300], d["first_difference"]),
                      dict(d, direction="core"))

    # 4. code -> spec: seeded random histories (dyadic factors: the real arithmetic is exact) validated by TLC
    ntr = 25 if _SELFTEST else 300 if thorough else 50
    traces = trace_driver(Adapter(cat["CT"], cat["BT"]), ntr, 6, seed)
    bad, stats = tracecheck.validate("AxialExpansion_trace", "AxialExpansion_trace.cfg", MODDIR, traces, timeout=3000)
    rep.add_tlc("trace-validation", stats["tlc"])
    rep.add_traces("random-histories", len(traces), sum(len(t["ev"]) for t in traces),
                   "seeded random histories of up to 6 prescribed expansions/contractions by powers of two on 3..4-block assemblies run "
                   "on real objects; every event (call, exact post-state as rationals) must be a step of AxialExpansion")
    rep.sample({"kind": "trace", "id": traces[0]["id"], "design": traces[0]["design"], "events": traces[0]["ev"][:1]})
    for b in bad:
        ev = b["trace"]["ev"]
        k = b["matched"]
        nxt = ev[k] if k < len(ev) else {}
        rep.violation("trace:%s" % (nxt.get("a", {}).get("n", b.get("invariant", "?"))),
                      "recorded history is not a behaviour of AxialExpansion at event %d (%s) %s" % (
                          k + 1, json.dumps(nxt.get("a"))[:300], json.dumps(b.get("mismatch", ""))[:600]),
                      {"direction": "trace", "trace": b["trace"], "matched": k, "tlc": b.get("tlc")})

    rep.assume(
        "assemblies: pin-type HexBlocks from the specification's catalogue (Circle pins/clad/liner, Hexagon duct, fluid bond/coolant) "
        "below a fluid-only top block flagged DUMMY or below an ordinary (non-DUMMY) top block; changer built with detailedAxialExpansion "
        "True and False (a design dimension)",
        "explicit (blueprint) target components are always solid components of their block",
        "core level: followers are not expanded themselves and only use block tops that exist in the reference mesh; the uniform-mesh snap "
        "(setBlockMesh 'auto') is checked against what it documents: fuel of fuel blocks and solids below the fuel column keep their mass, "
        "plenum and non-fuel-assembly densities are left alone",
        "a call that drives a block height negative raises ArithmeticError in the middle of the loop and leaves the assembly "
        "half-updated (modelled as such, terminal); ValueError from the temperature mapping leaves the lower blocks at their new temperature",
        "conservation clauses are read per block as written; 'expand then inverse restores' is read within the scope of the "
        "preceding clause (both changes give the solids of each block one common fraction)",
        "materials: L_A = 1 + Tc/5000, L_B = 1 + Tc/10000 (subclasses of HT9), temperature-independent fluid density; input temperature 0.0 C, "
        "temperature fields take the values -250, 0.0, 250, 500 C; some designs are built hot (500 C) with marginal cold radial overlaps",
        "tolerances: rtol 1e-9 (a handful of double operations), atol 1e-12 cm (degenerate heights are exact zeros in the specification)",
    )


CLAUSE_TEXT = {
    "TargetMassConserved": "statement clause 'the mass of each block's target component is always conserved' is refuted by TLC on the "
                           "transcription of axiallyExpandAssembly and by the real code: %s",
    "UniformBlockMassConserved": "statement clause 'when all solid components of a block grow by the same fraction the mass of every one of "
                                 "them is conserved' is refuted by TLC and by the real code: %s",
    "PositiveHeights": "statement clause 'blocks of positive height' is refuted by TLC (guard is `height < 0.0`) and by the real code: %s",
}


def measure_clause(ad, case, clause):
    """run the behaviour on the real code and measure the clause's quantity directly (no expectation involved)"""
    w = ad.build(case["A"])
    path = case["path"]
    for act in path[:-1]:
        ad.apply(w, act)
    mod = ad.modelled(w)
    before = [[c.getMass() for c in blk] for blk in mod]
    err = ad.apply(w, path[-1])
    a = w["a"]
    after = [[c.getMass() for c in blk] for blk in mod]
    out = {"err": err, "confirmed": False, "text": ""}
    if clause == "PositiveHeights":
        hs = [float(b.p.height) for b in a]
        out["heights"] = hs
        z = [i for i, h in enumerate(hs) if h <= 0.0]
        if z and not err:
            out["confirmed"] = True
            out["text"] = "%s with %s accepted, block %d is left with height %r" % (
                json.dumps(case["A"]["types"]), json.dumps(path[-1]["g"]), z[0], hs[z[0]])
        return out
    g = path[-1].get("g")
    for ib, b in enumerate(a[:-1]):
        tn = b.p.axialExpTargetComponent
        for ic, c in enumerate(mod[ib]):
            if not w["solid"][ib][ic]:
                continue
            rel = after[ib][ic] / before[ib][ic]
            if clause == "TargetMassConserved" and c.name != tn:
                continue
            if clause == "UniformBlockMassConserved":
                gs = {json.dumps(g[ib][k]) for k in range(len(mod[ib])) if w["solid"][ib][k]}
                if len(gs) != 1:
                    continue
            if abs(rel - 1.0) > 1e-6 and not err:
                out["confirmed"] = True
                out["text"] = "design %s (heights %s), growth %s: mass of %s '%s' in block %d (%s) goes %.6f -> %.6f g (x%.6f)" % (
                    json.dumps(case["A"]["types"]), case["A"]["hs"], json.dumps(g), "target component" if c.name == tn else "component",
                    c.name, ib, b.getType(), before[ib][ic], after[ib][ic], rel)
                out["block"], out["component"], out["ratio"] = ib, c.name, rel
                return out
    return out


# ------------------------------------------------------------------------------------------------------------
# code -> spec
# ------------------------------------------------------------------------------------------------------------
TRACE_DESIGNS = [
    {"types": ["shield", "fuel", "plenum"], "hs": [4, 8, 4], "hd": 32, "top": "", "det": True, "hot": 0, "rule": "default"},
    {"types": ["fuel", "fuel", "plenumd"], "hs": [8, 4, 2], "hd": 16, "top": "", "det": False, "hot": 0, "rule": "default"},
    {"types": ["shieldd", "fueld", "fueld", "plenumd"], "hs": [2, 4, 4, 2], "hd": 24, "top": "", "det": True, "hot": 0, "rule": "default"},
    {"types": ["fuelb", "bigfuel", "plenum"], "hs": [4, 4, 4], "hd": 12, "top": "", "det": False, "hot": 0, "rule": "default"},
    {"types": ["shield", "fuel", "fuel"], "hs": [4, 8, 4], "hd": 16, "top": "plenum", "det": False, "hot": 0, "rule": "default"},  # no dummy: the plenum is chopped
    {"types": ["fuel", "fuel"], "hs": [4, 4], "hd": 8, "top": "fuel", "det": False, "hot": 0, "rule": "default"},
    {"types": ["fuel"], "hs": [4], "hd": 8, "top": "plenum", "det": True, "hot": 0, "rule": "default"},  # no dummy + detailed: refused
    {"types": ["fuel", "fuel", "plenums"], "hs": [4, 4, 4], "hd": 16, "top": "", "det": False, "hot": 2, "rule": "default"},  # built hot, marginal sleeve link
    {"types": ["fuel", "plenumr"], "hs": [4, 4], "hd": 8, "top": "", "det": True, "hot": 2, "rule": "default"},
    {"types": ["shield", "fuel", "plenum"], "hs": [4, 4, 4], "hd": 16, "top": "", "det": False, "hot": 0, "rule": "freeclad"},  # linkage through the subclass hook
]


def frac(x):
    f = Fraction(x).limit_denominator(1 << 24)
    return [f.numerator, f.denominator]


def trace_driver(ad, ntraces, nev, seed):
    rng = random.Random(seed * 104729 + 12)
    traces = []
    for t in range(ntraces):
        d = dict(rng.choice(TRACE_DESIGNS))
        names = [ad.BT[x]["comps"] for x in d["types"]] + [ad.BT[d["top"]]["comps"] if d["top"] else []]
        expl = []
        for ns in names[:-1]:
            sol = [n for n in ns if ad.CT[n]["solid"]]
            expl.append(rng.choice([""] * 2 + sol))
        expl.append("")
        A = dict(d, expl=expl, names=names, solid=[[ad.CT[n]["solid"] for n in ns] for ns in names], ng=0)
        w = ad.build(A)
        ev = []
        for _ in range(nev):
            g = [[[1, 1] if not s_ or rng.random() < 0.5 else rng.choice([[1, 2], [2, 1], [1, 1]]) for s_ in row] for row in A["solid"][:-1]]
            if rng.random() < 0.25:  # per-block uniform change
                g = []
                for row in A["solid"][:-1]:
                    u = rng.choice([[1, 2], [2, 1], [1, 1]])
                    g.append([u if s_ else [1, 1] for s_ in row])
            act = {"n": "Prescribed", "g": g, "setFuel": rng.random() < 0.7, "kind": "sparse" if rng.random() < 0.5 else "all"}
            try:
                ad.apply(w, act)
                p = ad.project(w)
                post = {"err": p["err"], "zb": [frac(x) for x in p["zb"]], "zt": [frac(x) for x in p["zt"]], "h": [frac(x) for x in p["h"]],
                        "mesh": [frac(x) for x in p["mesh"]], "locz": [frac(x) for x in p["locz"]], "tname": p["tname"],
                        "comp": [[{"h": frac(c["h"]), "zb": frac(c["zb"]), "zt": frac(c["zt"]),
                                   "lin": frac(c["lin"]) if isinstance(c["lin"], float) else c["lin"],
                                   "mass": frac(c["mass"])} for c in blk] for blk in p["comp"]]}
                ev.append({"a": act, "post": post})
            except Exception as ex:  # noqa: BLE001
                ev.append({"a": act, "post": {"exception": "%s: %s" % (type(ex).__name__, str(ex)[:200])}})
                break
            if w["broken"]:
                break
        traces.append({"id": "t%d" % t, "design": d,
                       "ex": [0 if not e else names[i].index(e) + 1 for i, e in enumerate(expl)], "ev": ev})
    return traces


# ------------------------------------------------------------------------------------------------------------
def replay(payload):
    _, cat, _ = emit("AxialExpansion_cases.cfg")
    ad = Adapter(cat["CT"], cat["BT"])
    direction = payload.get("direction")
    if direction == "replay":
        d = run_case(ad, {"A": payload["A"], "path": payload["behaviour"], "obs": payload["expected"]})
        print(json.dumps(d, indent=1, default=str) if d else "no divergence: behaviour conforms")
        return 1 if d else 0
    if direction == "core":
        d = run_core_case(CoreAdapter(cat["CT"], cat["BT"]), {"A": payload["A"], "F": payload["F"], "path": payload["behaviour"],
                                                            "obs": payload["expected"]["obs"], "fobs": payload["expected"]["fobs"],
                                                            "coreMesh": payload["expected"]["coreMesh"]})
        print(json.dumps(d, indent=1, default=str) if d else "no divergence: behaviour conforms")
        return 1 if d else 0
    if direction == "clause":
        m = measure_clause(ad, {"A": payload["A"], "path": payload["behaviour"]}, payload["clause"])
        print(json.dumps(m, indent=1, default=str))
        return 1 if m["confirmed"] else 0
    print("replay of direction=%s: see payload (TLC trace / recorded trace)" % direction)
    return 0


def _src_mutant(owner, name, old, new, also=()):
    """context manager factory: `owner.name` re-compiled from its own source with `old` replaced by `new`
    (a realistic one-line change of the anchored code); `also` = other modules that imported the name."""
    import contextlib
    import inspect
    import textwrap

    from harness.selftest import patched

    raw = owner.__dict__.get(name, getattr(owner, name))
    kind = type(raw) if isinstance(raw, (staticmethod, classmethod)) else None
    f = raw.__func__ if kind else raw
    src = textwrap.dedent(inspect.getsource(f))
    if old not in src:
        raise tlc.MachineryError("mutant text %r not found in %s" % (old, name))
    ns = {}
    exec(compile(src.replace(old, new), "<c12-mutant:%s>" % name, "exec"), f.__globals__, ns)  # noqa: S102
    g = ns[name]
    g = kind(g) if kind else g

    @contextlib.contextmanager
    def cm():
        with contextlib.ExitStack() as st:
            st.enter_context(patched(owner, name, g))
            for m in also:
                st.enter_context(patched(m, name, g))
            yield

    return cm


def _slot_patched(obj, name, value):
    """like harness.selftest.patched, for objects with __slots__ (parameter definitions)"""
    import contextlib

    @contextlib.contextmanager
    def cm():
        old = getattr(obj, name)
        setattr(obj, name, value)
        try:
            yield
        finally:
            setattr(obj, name, old)

    return cm()


def selftest():
    """In-process mutants of the anchored code; each must be detected by replay, the static cases or trace validation."""
    global _SELFTEST
    from harness.report import Report
    from harness.selftest import run_mutants

    armi_ready()
    from armi.reactor.converters.axialExpansionChanger import assemblyAxialLinkage as L
    from armi.reactor.converters.axialExpansionChanger import axialExpansionChanger as X
    from armi.reactor.converters.axialExpansionChanger import expansionData as E

    from armi.reactor import assemblies, blocks

    C, D, K = X.AxialExpansionChanger, E.ExpansionData, L.AssemblyAxialLinkage
    _SELFTEST = True

    def detect():
        rep = Report("C12", "quick", 0)
        run(rep, "quick", 0)
        return [v["key"] for v in rep.violations if not v["key"].startswith("clause:")]

    M = _src_mutant
    mutants = [
        ("dummy keeps its own height (assembly height not preserved)",
         M(C, "axiallyExpandAssembly", "        else:\n            b.p.height = b.p.ztop - b.p.zbottom\n",
           "        else:\n            b.p.ztop = b.p.zbottom + blockHeight\n            b.p.height = b.p.ztop - b.p.zbottom\n")),
        ("block bottom not re-stacked on the block below", M(C, "axiallyExpandAssembly", "if ib > 0:", "if ib > 1:")),
        ("number densities multiplied by the growth fraction", M(C, "axiallyExpandAssembly", "c.changeNDensByFactor(1.0 / growFrac)", "c.changeNDensByFactor(growFrac)")),
        ("number densities changed for the target component only",
         M(C, "axiallyExpandAssembly", "c.changeNDensByFactor(1.0 / growFrac)", "self.expansionData.isTargetComponent(c) and c.changeNDensByFactor(1.0 / growFrac)")),
        ("component height grows from its own previous height", M(C, "axiallyExpandAssembly", "c.height = growFrac * blockHeight", "c.height = growFrac * getattr(c, 'height', blockHeight)")),
        ("linked component bottom taken from the block below, not the linked component",
         M(C, "axiallyExpandAssembly", "c.zbottom = self.linked.linkedComponents[c].lower.ztop", "c.zbottom = self.linked.linkedBlocks[b].lower.p.ztop")),
        ("grid bounds not updated", M(C, "axiallyExpandAssembly", "self.linked.a.spatialGrid._bounds = tuple(bounds)", "pass")),
        ("block boundary follows the last solid component, not the target", M(C, "axiallyExpandAssembly", "if self.expansionData.isTargetComponent(c):", "if True:")),
        ("block mid-plane p.z not updated", M(C, "axiallyExpandAssembly", "b.p.z = b.p.zbottom + b.getHeight() / 2.0", "pass")),
        ("component volume cache not cleared", M(C, "axiallyExpandAssembly", "c.clearCache()", "pass")),
        ("block height set to the target component's height", M(C, "axiallyExpandAssembly", "b.p.ztop = c.ztop\n                    b.p.height = b.p.ztop - b.p.zbottom", "b.p.ztop = c.ztop\n                    b.p.height = c.height")),
        ("reference temperature recorded after the new temperature is set",
         M(D, "updateComponentTemp", "self.componentReferenceTemperature[c] = c.temperatureInC\n    c.setTemperature(temp)", "c.setTemperature(temp)\n    self.componentReferenceTemperature[c] = c.temperatureInC")),
        ("seed 1: the absorbing block is found by the DUMMY flag, not by position",
         M(C, "axiallyExpandAssembly", "isDummyBlock = ib == (numOfBlocks - 1)", "isDummyBlock = b.hasFlags(Flags.DUMMY)")),
        ("seed 3: grid bounds only rewritten by a detailed changer",
         M(C, "axiallyExpandAssembly", "self.linked.a.spatialGrid._bounds = tuple(bounds)",
           "self.linked.a.spatialGrid._bounds = tuple(bounds) if self._detailedAxialExpansion else self.linked.a.spatialGrid._bounds")),
        # (not listed: dropping `b.spatialLocator = a.spatialGrid[0, 0, ib]` is equivalent here -- Assembly.add / reestablishBlockOrder
        #  already attached each block to that same cached location of the same grid object; tried, not observable)
        ("missing dummy accepted by a detailed changer", M(C, "_isTopDummyBlockPresent", "if self._detailedAxialExpansion:", "if False:")),
        ("missing dummy refused by the default changer too", M(C, "_isTopDummyBlockPresent", "if self._detailedAxialExpansion:", "if True:")),
        ("seed2-1: one of the four link diameters taken hot (idA)",
         M(L, "areAxiallyLinked", "idA = componentA.getCircleInnerDiameter(cold=True)", "idA = componentA.getCircleInnerDiameter()")),
        ("link outer diameter of B taken hot (odB)",
         M(L, "areAxiallyLinked", "odB = componentB.getBoundingCircleOuterDiameter(cold=True)", "odB = componentB.getBoundingCircleOuterDiameter()")),
        ("seed2-4: manageCoreMesh snaps without conserveMassFlag='auto'",
         M(C, "manageCoreMesh", 'a.setBlockMesh(r.core.refAssem.getAxialMesh(), conserveMassFlag="auto")', "a.setBlockMesh(r.core.refAssem.getAxialMesh())")),
        ("manageCoreMesh conserves every mass (conserveMassFlag=True)",
         M(C, "manageCoreMesh", 'conserveMassFlag="auto"', "conserveMassFlag=True")),
        ("manageCoreMesh skips the core mesh update", M(C, "manageCoreMesh", "r.core.updateAxialMesh()", "pass")),
        ("seed2-5: reference temperature 0.0 C treated as missing",
         M(D, "_perComponentThermalExpansionFactors", "elif c in self.componentReferenceTemperature:", "elif self.componentReferenceTemperature.get(c):")),
        ("seed3-1: links looked up with the module function, not the overridable hook",
         M(K, "_findComponentLinkedTo", "functools.partial(self.areAxiallyLinked, c)", "functools.partial(areAxiallyLinked, c)")),
        ("seed3-2: the designated target name survives replaceBlockWithBlock",
         M(blocks.Block, "replaceBlockWithBlock", "tempBlock = copy.deepcopy(bReplacement)",
           "paramsToSkip.add('axialExpTargetComponent'); tempBlock = copy.deepcopy(bReplacement)")),
        ("seed3-3: setAssembly keeps the linkage of the previous call on the same assembly",
         M(C, "setAssembly", "self.linked = AssemblyAxialLinkage(a)",
           "self.linked = self.linked if (self.linked is not None and self.linked.a is a) else AssemblyAxialLinkage(a)")),
        ("seed3-4: fuel of fuel blocks only conserved in FUEL-flagged assemblies",
         M(assemblies.Assembly, "_shouldMassBeConserved", "if b.hasFlags(Flags.FUEL):", "if self.hasFlags(Flags.FUEL) and b.hasFlags(Flags.FUEL):")),
        ("seed3-5: the designated target name is not written to the database",
         lambda: _slot_patched(blocks.Block.paramCollectionType.pDefs["axialExpTargetComponent"], "saveToDB", False)),
        ("negative block height accepted", M(X, "_checkBlockHeight", "if b.getHeight() <= 0.0:", "if b.getHeight() < -1.0e9:")),
        ("zero block height accepted again (<= 0.0 back to < 0.0)", M(X, "_checkBlockHeight", "if b.getHeight() <= 0.0:", "if b.getHeight() < 0.0:")),
        ("link direction reversed (upper stored as lower)", M(K, "_getLinkedComponents", "AxialLink(lowerC, upperC)", "AxialLink(upperC, lowerC)")),
        ("touching cross-sections count as linked (< becomes <=)", M(L, "areAxiallyLinked", "return biggerID < smallerOD", "return biggerID <= smallerOD")),
        ("multiplicity ignored by the link test", M(L, "areAxiallyLinked", 'and (componentA.getDimension("mult") == componentB.getDimension("mult"))', "")),
        ("two link candidates silently resolved to the first", M(K, "_findComponentLinkedTo", "        else:\n            errMsg", "        elif False:\n            errMsg")),
        ("zero expansion factor accepted", M(D, "setExpansionFactors", "if exp <= 0.0:", "if exp < 0.0:")),
        ("unlisted components default to the last given factor", M(D, "getExpansionFactor", "self._expansionFactors.get(c, 1.0)",
                                                                 "self._expansionFactors.get(c, list(self._expansionFactors.values())[-1] if self._expansionFactors else 1.0)")),
        ("block temperature = last grid point instead of the mean", M(D, "updateComponentTempsBy1DTempField", "blockAveTemp = mean(tmpMapping)", "blockAveTemp = tmpMapping[-1]")),
        ("temperature window excludes the block top side", M(D, "updateComponentTempsBy1DTempField", "if b.p.zbottom <= z <= b.p.ztop:", "if b.p.zbottom <= z <= b.p.ztop - 1.0:")),
        ("temperature window excludes the block bottom (zbottom < z)", M(D, "updateComponentTempsBy1DTempField", "if b.p.zbottom <= z <= b.p.ztop:", "if b.p.zbottom < z <= b.p.ztop:")),
        ("thermal factor always relative to the input temperature", M(D, "_perComponentThermalExpansionFactors", "if self.expandFromTinputToThot:", "if True:")),
        ("aclp blocks no longer use the clad as target", M(D, "_setTargetComponents", "b.hasFlags(Flags.PLENUM) or b.hasFlags(Flags.ACLP)", "b.hasFlags(Flags.PLENUM)")),
        ("preferred target flags reordered (poison before control)", lambda: __import__("harness.selftest", fromlist=["patched"]).patched(
            E, "TARGET_FLAGS_IN_PREFERRED_ORDER", [E.Flags.FUEL, E.Flags.POISON, E.Flags.CONTROL, E.Flags.SHIELD, E.Flags.SLUG])),
        ("single-solid fallback removed", M(D, "determineTargetComponent", "if len(solidMaterials) == 1:", "if False:")),
        ("determined target not persisted on the block", M(D, "_setExpansionTarget", "b.p.axialExpTargetComponent = target.name", "pass")),
        ("explicit target ignored", M(D, "_setTargetComponents", "if b.p.axialExpTargetComponent:", "if False:")),
        ("fluids expanded like solids", M(E, "iterSolidComponents", "filter(lambda c: not isinstance(c.material, material.Fluid), b)", "iter(b)", also=(X, L))),
    ]
    try:
        return run_mutants(mutants, detect)
    finally:
        _SELFTEST = False
