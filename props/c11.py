"""C11 -- axial re-meshing: TLC exhaustive runs of spec/mesh/*.tla, and every case / state TLC computed executed on real armi.

Four specifications, each bound spec -> code (expected values are the ones TLC printed, never recomputed here):
  AxialRemesh   makeAssemWithUniformMesh / setAssemblyStateFromOverlaps / setBlockMesh / getBlocksBetweenElevations / getBlockAtElevation
  Resample      armi.utils.mathematics.resampleStepwise
  FilterMesh    UniformMeshGenerator._filterMesh
  CommonMesh    UniformMeshGenerator.generateCommonMesh (average1DWithinTolerance + decusping pipeline) on a real small core
"""
import json
import os
import re

from harness import common, tlc
from harness import replay as rp
from harness.armi_env import armi_ready

MODDIR = os.path.join(common.SPEC, "mesh")

# ------------------------------------------------------------------------------------------------------------
# units: the specifications work on integer mesh points and small rationals; these constants map them to armi
# ------------------------------------------------------------------------------------------------------------
ZU = 7.5          # cm per mesh unit (dyadic: every mesh point and height is an exact double, float dust comes only from jitter)
ZU_ODD = 3.3      # thorough: a second scale whose cumulative sums differ from products in the last bits
ZU_SLIVER = 1.0 / 32.0  # sliver configurations: H = 2400 units = 75 cm, overlaps of one unit (0.03125 cm) are ~1/1200 of a cell
NU = 1.0e-3       # atoms/b-cm per density unit
JIT = 1.0e-9      # cm; jitter of nearly coincident points: above the 1e-10 relative sliver filter, far below the 1e-5 cm check
RTOL = 1e-9       # a handful of double operations
RTOL_JIT = 1e-7   # jittered meshes are compared with the expected values of the exact mesh
PNAME = {"I": "power", "IA": "mgFlux", "A": "pdens", "AA": "pressureLossCoeffs", "P": "fluxPeak"}
NUCOF = {"pin": "U235", "duct": "FE", "fluid": "NA"}
FLAGS = {"true": True, "false": False, "auto": "auto"}
_MUT = {"on": False}


def rat(x):
    return x[0] / x[1]


def val(v, arity1):
    """spec value (sequence of rationals, [] = unset) -> None | float | [float]"""
    if not v:
        return None
    f = [rat(x) for x in v]
    return f[0] if arity1 else f


# ------------------------------------------------------------------------------------------------------------
# AxialRemesh adapter
# ------------------------------------------------------------------------------------------------------------
class RemeshAdapter:
    def __init__(self, zu=ZU):
        armi_ready()
        from armi.reactor.converters import uniformMesh

        from harness import gen_assembly

        self.um, self.ga, self.zu = uniformMesh, gen_assembly, zu
        self._pm = None

    # -- expected observation (spec units) -> physical units ------------------------------------------------
    def expect_asm(self, a, w):
        if not a["tops"]:
            return None
        k = len(a["tops"])
        out = {
            "tops": [t * self.zu for t in a["tops"]],
            "n": [{c: rat(a["n"][i][c]) * NU for c in NUCOF} for i in range(k)],
            "p": [{p: val(a["p"][i][p], p in ("I", "A", "P")) for p in PNAME} for i in range(k)],
            "atoms": {c: rat(a["atoms"][c]) * NU * self.zu for c in NUCOF},
            "tot": {p: [rat(x) for x in a["tot"][p]] for p in ("I", "IA")},
        }
        # "hence mass": measured mass per model atom of the assembly as built  x  the model's atoms
        out["mass"] = {c: w["mass_per_atom"][c] * rat(a["atoms"][c]) for c in NUCOF}
        return out

    def expect(self, st, w):
        o = st["obs"]
        e = {"src": self.expect_asm(o["src"], w), "dst": self.expect_asm(o["dst"], w)}
        q = o["q"]
        if q["at"] and not w["jit"]:   # queries at exact points of a jittered mesh have no exact expected value
            e["between"] = {"%d-%d" % (x["lo"], x["hi"]): [[r[0], r[1] * self.zu] for r in x["r"]] for x in q["between"]}
            e["between_jit"] = {"%d-%d-%s" % (x["lo"], x["hi"], sg): [[r[0], r[1] * self.zu] for r in x["r"]]
                                for x in q["between"] for sg in ("in", "out")}
            e["at"] = [[x[0], x[1]] for x in q["at"]]
        return e

    # -- build / apply / project ----------------------------------------------------------------------------
    def build(self, root):
        a = root["obs"]["src"]
        k = len(a["tops"])
        fuel = a["fuel"]
        kinds = ["fuel" if i + 1 == fuel else ("grid plate" if (fuel == 0 or i + 1 < fuel) else "plenum") for i in range(k)]
        tops = [0] + a["tops"]
        heights = [(tops[i + 1] - tops[i]) * self.zu for i in range(k)]
        dens = [{NUCOF[c]: rat(a["n"][i][c]) * NU for c in NUCOF if rat(a["n"][i][c]) != 0} for i in range(k)]
        params = [{PNAME[p]: val(a["p"][i][p], p in ("I", "A", "P")) for p in PNAME} for i in range(k)]
        asm = self.ga.build_assembly(heights, kinds, dens, params, assem_type="fuel" if a["asmFuel"] else "reflector",
                                     geom=root["ini"].get("geom", "cold"))
        if self._pm is None:
            self._pm = self.um.ParamMapper([], list(PNAME.values()), asm[0])
        # the cross-section every atom count is referred to: the source assembly's, measured once as built
        w = {"src": asm, "dst": None, "jit": False, "area": float(asm[0].getArea())}
        w["mass_per_atom"] = {}
        for c, nuc in NUCOF.items():
            at = rat(a["atoms"][c])
            w["mass_per_atom"][c] = asm.getMass(nuc) / at if at else 0.0
        return w

    def mesh(self, act):
        j = act.get("jit", "none")
        pts = []
        for i, t in enumerate(act["mesh"]):
            d = {"none": 0.0, "up": JIT, "down": -JIT, "alt": JIT if i % 2 == 0 else -JIT}[j]
            pts.append(t * self.zu + d)
        return pts

    def apply(self, w, act, post=None):
        n = act["n"]
        C = self.um.UniformMeshGeometryConverter
        if n == "Move":
            # interior boundaries of the same object move: Block.setHeight on every block (densities kept, total height unchanged)
            t = [0] + act["tops"]
            for i, b in enumerate(w["src"]):
                b.setHeight((t[i + 1] - t[i]) * self.zu)
        elif n in ("MakeUniform", "MakeUniform2"):
            if act.get("jit", "none") != "none":
                w["jit"] = True
            w["dst"] = C.makeAssemWithUniformMesh(w["src"], self.mesh(act), paramMapper=self._pm, mapNumberDensities=True)
        elif n == "Solve":
            # the environment writes the state TLC chose (values of the post-state) on the converted assembly
            for b, pv in zip(w["dst"], post["obs"]["dst"]["p"]):
                for p, name in PNAME.items():
                    v = val(pv[p], p in ("I", "A", "P"))
                    if v is None:
                        b.p[name] = None
                    else:
                        self.ga.set_param(b, name, v)
        elif n == "MapBack":
            C.setAssemblyStateFromOverlaps(w["dst"], w["src"], self._pm, mapNumberDensities=True)
        elif n == "Snap":
            a = w["src"]
            a.makeAxialSnapList(refMesh=a.getAxialMesh(), force=True)
            a.setBlockMesh([t * self.zu for t in act["tops"]], FLAGS[act["flag"]])
        else:
            raise AssertionError("unknown action " + n)

    def project_asm(self, a, area=None):
        if a is None:
            return None
        names = list(PNAME.values())
        bs = [self.ga.block_state(b, pnames=names) for b in a]
        inv = {v: k for k, v in PNAME.items()}
        tot = {"I": [0.0], "IA": [0.0, 0.0]}
        for s in bs:
            v = s["p"][PNAME["I"]]
            tot["I"][0] += v or 0.0
            v = s["p"][PNAME["IA"]]
            if v is not None:
                tot["IA"] = [x + y for x, y in zip(tot["IA"], v)]
        return {
            "tops": [float(b.p.ztop) for b in a],
            "heights_consistent": all(abs((b.p.ztop - b.p.zbottom) - b.getHeight()) <= 1e-9 for b in a),
            "n": [{c: s["n"][NUCOF[c]] for c in NUCOF} for s in bs],
            "p": [{inv[k]: v for k, v in s["p"].items()} for s in bs],
            "atoms": {c: self.ga.atoms_per_area(a, NUCOF[c], area) for c in NUCOF},
            "tot": tot,
            "mass": {c: float(a.getMass(NUCOF[c])) for c in NUCOF},
        }

    def project(self, w, exp, stage="orig"):
        out = {"src": self.project_asm(w["src"], w["area"]), "dst": self.project_asm(w["dst"], w["area"])}
        if "at" in exp:
            a = w["src"] if stage in ("orig", "moved") else w["dst"]
            blocks = list(a)
            ix = {id(b): i + 1 for i, b in enumerate(blocks)}
            out["between"], out["between_jit"] = {}, {}
            for key in exp["between"]:
                lo, hi = (int(x) for x in key.split("-"))
                r = a.getBlocksBetweenElevations(lo * self.zu, hi * self.zu)
                out["between"][key] = [[ix[id(b)], float(h)] for b, h in r]
            # the same windows with nearly coincident bounds: slivers below 1e-6 cm are not part of the exact partition
            for key in exp["between_jit"]:
                lo, hi, sg = key.split("-")
                d = JIT if sg == "in" else -JIT
                r = a.getBlocksBetweenElevations(int(lo) * self.zu + d, int(hi) * self.zu - d)
                out["between_jit"][key] = [[ix[id(b)], float(h)] for b, h in r if h > 1e-6]
            out["at"] = []
            for e, _blk in exp["at"]:
                b = a.getBlockAtElevation(e * self.zu)
                out["at"].append([e, 0 if b is None else ix[id(b)]])
        return out


def compare_remesh(exp, got, jit):
    """First difference between TLC's expected observation (physical units) and the real projection.
    Exact meshes: rtol 1e-9 everywhere.  Jittered target meshes (points moved by 1e-9 cm) are compared with the expected
    values of the exact mesh: rtol 1e-7 plus an absolute term of 1e-7 value units (a 1e-9 cm sliver of a neighbour leaks
    ~1e-10 of its value); peak values and the unset/set distinction are discontinuous in the sliver and are not compared."""
    rtol = RTOL_JIT if jit else RTOL
    for side in ("src", "dst"):
        e, g = exp[side], got[side]
        if e is None:
            if g is not None:
                return ".%s: an assembly exists where the specification has none" % side
            continue
        if g is None:
            return ".%s: no assembly" % side
        if not g["heights_consistent"]:
            return ".%s.heights: ztop - zbottom differs from getHeight()" % side
        for key, unit in (("tops", 1.0), ("n", NU), ("atoms", NU * ZU), ("tot", 1.0), ("mass", None)):  # unit: only scales the jitter atol
            atol = 1e-30 if not jit else (RTOL_JIT * unit if unit is not None else RTOL_JIT * max([1e-30] + [abs(x) for x in e["mass"].values()]))
            d = rp.diff(e[key], g[key], ".%s.%s" % (side, key), rtol=rtol, atol=atol)
            if d:
                return d
        if len(e["p"]) != len(g["p"]):
            return ".%s.p: expected %d blocks, observed %d" % (side, len(e["p"]), len(g["p"]))
        for i, (ep, gp) in enumerate(zip(e["p"], g["p"])):
            for p in PNAME:
                ev, gv = ep[p], gp[p]
                path = ".%s.p[%d].%s" % (side, i, p)
                if jit:
                    if p == "P":
                        continue
                    if ev is None:
                        if gv is not None and max(abs(x) for x in (gv if isinstance(gv, list) else [gv])) > RTOL_JIT:
                            return "%s: expected None, observed %r" % (path, gv)
                        continue
                d = rp.diff(ev, gv, path, rtol=rtol, atol=RTOL_JIT if jit else 1e-30)
                if d:
                    return d
    for key in ("between", "at", "between_jit"):
        if key in exp:
            d = rp.diff(exp[key], got.get(key), "." + key, rtol=RTOL, atol=1e-6 if key == "between_jit" else 1e-30)
            if d:
                return d
    return None


def run_remesh_state(ad, st, by_key):
    """Execute the history of one emitted state on a fresh real assembly; returns a divergence dict or None."""
    root = by_key[(rp.skey(st["ini"]), "[]")]
    hist = st["hist"]
    try:
        w = ad.build(root)
        for k, act in enumerate(hist):
            post = by_key.get((rp.skey(st["ini"]), rp.skey(hist[: k + 1])))
            ad.apply(w, act, post)
        exp = ad.expect(st, w)
        got = ad.project(w, exp, st["stage"])
    except Exception as ex:  # noqa: BLE001  an exception escaping a legal operation of armi is a divergence
        import traceback

        return {"first_difference": ".exception: %s escaped from the real code: %s" % (type(ex).__name__, str(ex)[:300]),
                "ini": st["ini"], "behaviour": hist, "action": hist[-1] if hist else {"n": "Init"}, "expected": st["obs"],
                "observed": {"exception": traceback.format_exc()[-2000:]}}
    d = compare_remesh(exp, got, w["jit"])
    if d:
        return {"first_difference": d, "ini": st["ini"], "behaviour": hist, "action": hist[-1] if hist else {"n": "Init"},
                "expected": exp, "observed": got}
    return None


def key_of(prefix, div):
    path = div["first_difference"].split(":")[0]
    path = re.sub(r"\[\d+\]", "", path)
    path = re.sub(r"\.\d+-\d+", "", path)
    return "%s:%s:%s" % (prefix, div["action"]["n"], path)


# ------------------------------------------------------------------------------------------------------------
# Resample: armi.utils.mathematics.resampleStepwise, one call per enumerated case and input representation
# ------------------------------------------------------------------------------------------------------------
XU = 2.5  # cm per mesh unit (dyadic)


def resample_kinds(case):
    kinds = ["list", "arrays"]
    if all(v >= 0 for v in case["yin"]):
        kinds.append("ndarray")
    return kinds


def resample_inputs(case, kind):
    import numpy as np

    ys = [None if v < 0 else float(v) for v in case["yin"]]
    if kind == "ndarray":
        return np.array(ys, dtype=float)
    if kind == "arrays":
        return [None if v is None else np.array([v, 2.0 * v]) for v in ys]
    return ys


def resample_cell_class(case, j):
    """input class of output cell j (0-based): strictly inside one input cell / other"""
    a, b = case["xout"][j], case["xout"][j + 1]
    for i in range(len(case["xin"]) - 1):
        if case["xin"][i] < a and b < case["xin"][i + 1]:
            return "interior-cell"
    return "other-cell"


def run_resample_case(p, kind):
    """-> list of (key suffix, description) ; empty when the real function agrees with TLC's expected result"""
    import copy

    from armi.utils.mathematics import resampleStepwise

    case = p["c"]
    xin = [x * XU for x in case["xin"]]
    xout = [x * XU for x in case["xout"]]
    yin = resample_inputs(case, kind)
    keep = copy.deepcopy(yin)
    mode = "avg" if case["avg"] else "sum"
    try:
        got = resampleStepwise(xin, yin, xout, avg=case["avg"])
    except Exception as ex:  # noqa: BLE001
        return [("%s:%s:exception" % (mode, kind), "%s: %s" % (type(ex).__name__, str(ex)[:200]), None)]
    out = []
    if len(got) != len(p["out"]):
        return [("%s:%s:length" % (mode, kind), "expected %d cells, observed %d" % (len(p["out"]), len(got)), None)]
    for j, (e, g) in enumerate(zip(p["out"], got)):
        ev = None if not e else rat(e)
        if ev is not None and kind == "arrays":
            ev = [ev, 2.0 * ev]
        gv = g if g is None else ([float(x) for x in g] if hasattr(g, "__len__") else float(g))
        d = rp.diff(ev, gv, "[%d]" % j)
        if d:
            out.append(("%s:%s:%s" % (mode, kind, resample_cell_class(case, j)), "cell %s" % d, gv))
            break
    same = rp.diff(_plain(keep), _plain(yin))
    if same:
        out.append(("%s:%s:input-mutated" % (mode, kind), "the caller's yin was modified in place: %s" % same, None))
    return out


def _plain(y):
    return [None if v is None else ([float(x) for x in v] if hasattr(v, "__len__") else float(v)) for v in y]


# ------------------------------------------------------------------------------------------------------------
# FilterMesh / CommonMesh: UniformMeshGenerator._filterMesh and generateCommonMesh
# ------------------------------------------------------------------------------------------------------------
FU = 2.5   # cm per point unit of FilterMesh (dyadic: gaps and the minimum are compared exactly, as in the model)
CU = 10.0  # cm per whole unit of CommonMesh (results are in half units = 5 cm)


def run_filter_case(p, rng):
    """-> None or (key suffix, description)"""
    from armi.reactor.converters.uniformMesh import UniformMeshGenerator

    c = p["c"]
    pts = [x * FU for x in c["pts"]]
    rng.shuffle(pts)  # _filterMesh sorts; the order handed in must not matter
    anchors = [x * FU for x in c["anchors"]]
    gen = UniformMeshGenerator(None, minimumMeshSize=c["min"] * FU)
    try:
        got = gen._filterMesh(pts, c["min"] * FU, anchors, preference=c["pref"])
        ok = True
    except ValueError as ex:
        got, ok = str(ex)[:120], False
    if ok != p["ok"]:
        return ("raises" if not ok else "no-error", "expected %s, observed %s" % ("a mesh" if p["ok"] else "ValueError", got))
    if ok:
        d = rp.diff([x * FU for x in p["mesh"]], [float(x) for x in got], ".mesh")
        if d:
            return ("mesh", d)
    return None


class CommonMeshAdapter:
    def __init__(self):
        armi_ready()
        from harness import gen_assembly

        self.ga = gen_assembly

    def build(self, c, hc):
        ga = self.ga

        def asm(a, material, typ, num):
            t = [0] + list(a["t"])
            k = len(a["t"])
            heights = [(t[i + 1] - t[i]) * CU for i in range(k)]
            kinds = ["grid plate" if i + 1 < a["b"] else (material if i + 1 == a["b"] else "plenum") for i in range(k)]
            return ga.build_assembly(heights, kinds, [{"FE": 1e-3, "NA": 2e-3} for _ in range(k)], assem_type=typ, assem_num=num)

        assems = [asm(c["a1"], "fuel", "fuel", 1), asm(c["a2"], "control", "control", 2)]
        if c["a3"]["t"]:
            assems.append(asm(c["a3"], "fuel", "fuel", 3))
        return ga.build_core(assems)

    def run_case(self, p, hc):
        from armi.reactor.converters.uniformMesh import UniformMeshGenerator

        c = p["c"]
        key = json.dumps([c["a1"], c["a2"], c["a3"], hc])
        if getattr(self, "_last", (None, None))[0] != key:  # cases that differ only in the minimum size share the core (it is only read)
            self._last = (key, self.build(c, hc))
        r = self._last[1]
        gen = UniformMeshGenerator(r, minimumMeshSize=c["min"] * CU / 2.0)
        stage = "avg"
        try:
            gen._computeAverageAxialMesh()
            common = [float(x) for x in gen._commonMesh]
            stage = "anchors"
            gen._decuspAxialMesh()
            outcome, mesh = "mesh", [float(x) for x in gen._commonMesh]
        except ValueError as ex:
            outcome, mesh = stage, str(ex)[:160]
        if outcome != p["outcome"]:
            return ("outcome", "expected outcome %r, observed %r (%s)" % (p["outcome"], outcome, mesh))
        if p["outcome"] != "avg":
            d = rp.diff([x * CU / 2.0 for x in p["common"]], common, ".average")
            if d:
                return ("average", d)
        if outcome == "mesh":
            d = rp.diff([x * CU / 2.0 for x in p["mesh"]], mesh, ".mesh")
            if d:
                return ("mesh", d)
            # the public entry point must give the same mesh
            gen2 = UniformMeshGenerator(r, minimumMeshSize=c["min"] * CU / 2.0)
            gen2.generateCommonMesh()
            d = rp.diff(mesh, [float(x) for x in gen2._commonMesh], ".generateCommonMesh")
            if d:
                return ("mesh", d)
        return None


# ------------------------------------------------------------------------------------------------------------
# run
# ------------------------------------------------------------------------------------------------------------
TIERS = {
    "quick": {
        "remesh_mc": [("AxialRemesh_mc.cfg", ("DoMakeUniform", "DoSolve", "MapBack", "DoMove", "MakeUniform2")),
                      ("AxialRemesh_snap.cfg", ("DoSnap", "DoSnapRefused", "DoMakeUniform"))],
        "remesh_emit": [("AxialRemesh_emit.cfg", ZU, "exact"), ("AxialRemesh_emit_jit.cfg", ZU, "jitter"),
                        ("AxialRemesh_sliver.cfg", ZU_SLIVER, "sliver"), ("AxialRemesh_sliver2.cfg", ZU_SLIVER, "sliver2"),
                        ("AxialRemesh_hot.cfg", ZU, "hot-duct")],
        "resample": "Resample_mc.cfg",
        "filter": "FilterMesh_mc.cfg",
        "common": [("CommonMesh_mc.cfg", 5, "avg"), ("CommonMesh_planes.cfg", 7, "planes"), ("CommonMesh_outlier.cfg", 10, "outlier")],
        "average": "AverageMesh_mc.cfg",
        "core": "CoreRemesh_mc.cfg",
    },
    "thorough": {
        "remesh_mc": [("AxialRemesh_mc_thorough.cfg", ("DoMakeUniform", "DoSolve", "MapBack", "DoMove", "MakeUniform2")),
                      ("AxialRemesh_snap_thorough.cfg", ("DoSnap", "DoSnapRefused", "DoMakeUniform"))],
        "remesh_emit": [("AxialRemesh_emit_thorough.cfg", ZU, "exact"), ("AxialRemesh_emit_jit_thorough.cfg", ZU, "jitter"),
                        ("AxialRemesh_emit.cfg", ZU_ODD, "odd-scale"),
                        ("AxialRemesh_sliver.cfg", ZU_SLIVER, "sliver"), ("AxialRemesh_sliver2.cfg", ZU_SLIVER, "sliver2"),
                        ("AxialRemesh_hot_thorough.cfg", ZU, "hot-duct")],
        "resample": "Resample_thorough.cfg",
        "filter": "FilterMesh_thorough.cfg",
        "common": [("CommonMesh_thorough.cfg", 6, "avg"), ("CommonMesh_planes_thorough.cfg", 8, "planes"),
                   ("CommonMesh_outlier_thorough.cfg", 10, "outlier")],
        "average": "AverageMesh_thorough.cfg",
        "core": "CoreRemesh_thorough.cfg",
    },
}
PARTS = ("remesh", "resample", "filter", "common", "average", "core")
_ST = {"on": False, "parts": None, "stride": 1}
_TLC_CACHE = {}


def _tlc(module, cfg, workers, emit):
    key = (module, cfg)
    if key not in _TLC_CACHE:
        _TLC_CACHE[key] = tlc.run(module, cfg, MODDIR, workers=workers, coverage=not emit, want_prints=emit, timeout=3000)
    return _TLC_CACHE[key]


def run(rep, tier, seed):
    import random
    import warnings
    from concurrent.futures import ThreadPoolExecutor

    T = TIERS["thorough" if tier == "thorough" else "quick"]
    parts = _ST["parts"] or PARTS
    armi_ready()
    warnings.filterwarnings("ignore", category=RuntimeWarning)
    for m in ("AxialRemesh_mc", "Resample", "FilterMesh", "CommonMesh", "AverageMesh", "CoreRemesh_mc"):
        if (m, "sany") not in _TLC_CACHE:
            tlc.sany(m, MODDIR)
            _TLC_CACHE[(m, "sany")] = True
    rep.exhaustive = True

    # every TLC run is started up front (they are independent); emission runs first, so that the replay of their states on
    # real objects overlaps with the exhaustive runs
    import time

    rep.extra["phase_wall_s"] = {}
    pool = ThreadPoolExecutor(max_workers=5)
    jobs = {}
    try:
        if "remesh" in parts:
            for cfg, _zu, _lab in T["remesh_emit"]:
                jobs[cfg] = pool.submit(_tlc, "AxialRemesh_mc", cfg, 1, True)
        if "resample" in parts:
            jobs[T["resample"]] = pool.submit(_tlc, "Resample", T["resample"], 1, True)
        if "filter" in parts:
            jobs[T["filter"]] = pool.submit(_tlc, "FilterMesh", T["filter"], 1, True)
        if "common" in parts:
            for cfg, _hc, _fam in T["common"]:
                jobs[cfg] = pool.submit(_tlc, "CommonMesh", cfg, 1, True)
        if "average" in parts:
            jobs[T["average"]] = pool.submit(_tlc, "AverageMesh", T["average"], 1, True)
        if "core" in parts:
            jobs[T["core"]] = pool.submit(_tlc, "CoreRemesh_mc", T["core"], 2, True)
        if "remesh" in parts and not _ST["on"]:
            for cfg, _acts in T["remesh_mc"]:
                jobs[cfg] = pool.submit(_tlc, "AxialRemesh_mc", cfg, 8, False)

        def result(cfg):
            t = time.time()
            r = jobs[cfg].result()
            rep.extra["phase_wall_s"]["wait:" + cfg] = round(time.time() - t, 1)
            rep.add_tlc(cfg, r)
            if r.violation:
                rep.violation("tlc:%s:%s" % (cfg.split(".")[0], r.violation["name"]),
                              "TLC: %s violated in the specification (%s)" % (r.violation["name"], cfg),
                              {"direction": "tlc", "cfg": cfg, "trace": r.violation["trace"][:20000]})
            if r.distinct == 0:
                raise tlc.MachineryError("no states in " + cfg)
            return r

        def timed(label, fn, *a):
            t = time.time()
            fn(*a)
            rep.extra["phase_wall_s"][label] = round(time.time() - t, 1)

        if "resample" in parts:
            timed("resample", _check_resample, rep, result(T["resample"]))
        if "filter" in parts:
            timed("filter", _check_filter, rep, result(T["filter"]), random.Random(seed))
        if "common" in parts:
            for cfg, hc, fam in T["common"]:
                timed("common:" + fam, _check_common, rep, result(cfg), hc, fam)
        if "average" in parts:
            timed("average", _check_average, rep, result(T["average"]))
        if "core" in parts:
            timed("core", _check_core, rep, result(T["core"]), T["core"])
        if "remesh" in parts:
            for cfg, zu, label in T["remesh_emit"]:
                timed("replay:" + label, _replay_remesh, rep, result(cfg), zu, label, cfg)
            if not _ST["on"]:
                for cfg, acts in T["remesh_mc"]:
                    r = result(cfg)
                    never = [a for a in acts if r.coverage.get(a, (0, 0))[1] == 0]
                    if never and not r.violation:
                        raise tlc.MachineryError("vacuous: actions never taken in %s: %s" % (cfg, never))
    finally:
        pool.shutdown(wait=True)
    rep.assume(
        "one assembly, all blocks with the same cross-section (hexagonal cell fully filled: pins, duct, coolant, inter-coolant at input "
        "temperature; or pins, a thermally expanded solid HT9 duct that defines the pitch, coolant); atoms of a re-meshed copy are referred to "
        "the source assembly's cross-section",
        "windows of getBlocksBetweenElevations / elevations of getBlockAtElevation inside the assembly (0 <= lo < hi <= top)",
        "peak law for non-negative values (the code folds peaks with max(value, 0.0)); no array-valued peak parameters exist in armi",
        "a source value None is skipped; a destination whose overlapped sources are all None keeps its previous value",
        "nearly coincident points: target mesh points and query bounds moved by +-1e-9 cm, compared with the exact-mesh values at "
        "rtol 1e-7 (+1e-7 value units); peaks and None-ness are discontinuous in a 1e-9 cm sliver and are not compared there",
        "resampleStepwise: output points inside the input range; _filterMesh: anchors are candidates; dyadic cm scales so that "
        "gap-versus-minimum comparisons are exact as in the integer model",
        "whole core: a third-core (periodic) Reactor built from real blueprints (armi/tests/detailedAxialExpansion) whose assemblies are replaced "
        "by generated ones (centre fuel assembly with symmetry factor 3, fuel, control, outlier fuel); decusping off (that is CommonMesh); "
        "integrated values are those held by the blocks; calcReactionRates off (no cross-section library)",
        "generateCommonMesh: cores of three assemblies (fuel reference, control with 3 or 4 blocks, fuel with 4 blocks; two meshes averaged) "
        "and cores of two assemblies where the fuel reference has regular non-material planes below / above the fuel and the control "
        "bottom and top take every position around them",
    )
    rep.extra["tolerances"] = {"rtol": RTOL, "rtol_jitter": RTOL_JIT, "jitter_cm": JIT, "cm_per_unit": ZU, "cm_per_unit_odd": ZU_ODD}


def _replay_remesh(rep, r, zu, label, cfg):
    states = [p for p in r.prints if isinstance(p, dict) and "ini" in p]
    if not states:
        raise tlc.MachineryError("no states emitted by " + cfg)
    by_key = {(rp.skey(s["ini"]), rp.skey(s["hist"])): s for s in states}
    ad = RemeshAdapter(zu)
    n = nt = 0
    ndiv = 0
    kinds = {}
    for i, st in enumerate(states):
        if _ST["stride"] > 1 and len(states) > 500 and i % _ST["stride"]:
            continue
        d = run_remesh_state(ad, st, by_key)
        n += 1
        nt += 1 if st["hist"] else 0
        for a in st["hist"][-1:]:
            kinds[a["n"]] = kinds.get(a["n"], 0) + 1
        if d:
            ndiv += 1
            chain = [by_key[(rp.skey(st["ini"]), rp.skey(st["hist"][:k]))] for k in range(len(st["hist"]) + 1)]
            rep.violation(key_of("remesh", d), "real assembly diverges from AxialRemesh after %s (%s): %s" % (
                json.dumps(d["behaviour"]), json.dumps(d["ini"]), d["first_difference"]),
                dict(d, direction="replay", kind="remesh", zu=zu, chain=chain))
            if ndiv >= 40:
                break
    rep.add_replay("remesh-%s:%s" % (label, cfg), n, nt,
                   "every distinct state TLC reached (initial assembly + action history) is rebuilt on a real HexAssembly and the whole "
                   "observation compared: per-block heights, homogenised densities, 5 parameters, atoms and mass per nuclide, integrated "
                   "totals, all getBlocksBetweenElevations windows and getBlockAtElevation points; non-trivial = at least one action")
    rep.extra.setdefault("remesh_last_actions", {})[label] = kinds
    mid = states[len(states) // 2]
    rep.sample({"kind": "remesh-state", "cfg": cfg, "ini": mid["ini"], "hist": mid["hist"],
                "expected_dst_block_1": (mid["obs"]["dst"]["n"] or [None])[0], "expected_atoms": mid["obs"]["dst"]["atoms"]})


def _check_resample(rep, r):
    cases = [p for p in r.prints if isinstance(p, dict) and "c" in p]
    if not cases:
        raise tlc.MachineryError("no resample cases emitted")
    n = nt = 0
    seen = {}
    for p in cases:
        for kind in resample_kinds(p["c"]):
            n += 1
            nt += 1 if p["c"]["xout"] != p["c"]["xin"] else 0
            found = run_resample_case(p, kind)
            # a call that modified its input is reported as that; wrong values of the same call are its consequence
            if any(k.endswith("input-mutated") for k, _w, _g in found):
                found = [f for f in found if f[0].endswith("input-mutated")]
            for k, what, _g in found:
                mode, _kind, cls = k.split(":")
                key = "resample:%s:%s" % (mode, cls)
                if key not in seen:
                    seen[key] = 0
                    rep.violation(key, "resampleStepwise(avg=%s) differs from Resample for xin=%s yin=%s xout=%s (%s input): %s" % (
                        p["c"]["avg"], p["c"]["xin"], p["c"]["yin"], p["c"]["xout"], kind, what),
                        {"direction": "replay", "kind": "resample", "case": p, "input": kind})
                seen[key] += 1
    rep.add_replay("resample-cases", n, nt,
                   "every enumerated (xin, yin, xout, avg) is passed to resampleStepwise as list / ndarray / list of arrays and compared "
                   "with TLC's expected cells; non-trivial = output mesh differs from the input mesh")
    rep.extra["resample_failing_calls"] = seen
    rep.sample({"kind": "resample-case", "case": cases[len(cases) // 3]})


def _check_filter(rep, r, rng):
    cases = [p for p in r.prints if isinstance(p, dict) and "c" in p]
    if not cases or not any(not p["ok"] for p in cases) or not any(p["ok"] and len(p["mesh"]) < len(p["c"]["pts"]) for p in cases):
        raise tlc.MachineryError("filter cases vacuous")
    n = nt = 0
    for p in cases:
        n += 1
        nt += 1 if (not p["ok"] or len(p["mesh"]) < len(p["c"]["pts"])) else 0
        f = run_filter_case(p, rng)
        if f:
            rep.violation("filter:%s:%s" % (p["c"]["pref"], f[0]), "_filterMesh differs from FilterMesh for %s: %s" % (json.dumps(p["c"]), f[1]),
                          {"direction": "replay", "kind": "filter", "case": p})
    rep.add_replay("filter-cases", n, nt, "every enumerated (points, anchors, minimum, preference) is passed to "
                   "UniformMeshGenerator._filterMesh; non-trivial = a point is removed or the call must raise")
    rep.sample({"kind": "filter-case", "case": cases[len(cases) // 2]})


def _check_common(rep, r, hc, fam):
    cases = [p for p in r.prints if isinstance(p, dict) and "c" in p]
    outcomes = {p["outcome"] for p in cases}
    if outcomes != ({"anchors", "mesh"} if fam == "planes" else {"avg", "anchors", "mesh"}):
        raise tlc.MachineryError("common-mesh cases vacuous: outcomes %s" % outcomes)
    if fam == "outlier":
        # the scenario the family exists for: three meshes enter the average, one is thrown out, the common mesh is built from the rest
        n = sum(1 for p in cases if p["outcome"] == "mesh" and p["rows"] == 3 and p["kept"] == 2)
        rep.extra["common_mesh_outlier_dropped_cases"] = n
        if not n:
            raise tlc.MachineryError("common-mesh outlier cases vacuous")
    if fam == "planes":
        # the scenario the family exists for: a control boundary strictly inside the minimum-size window of a regular plane
        near = {side: sum(1 for p in cases if p["outcome"] == "mesh" and p["near"][side]) for side in ("above", "below")}
        rep.extra["common_mesh_control_boundary_near_plane"] = near
        if not near["above"] or not near["below"]:
            raise tlc.MachineryError("common-mesh plane cases vacuous: %s" % near)
    ad = CommonMeshAdapter()
    n = nt = 0
    cases = sorted(cases, key=lambda p: json.dumps([p["c"]["a1"], p["c"]["a2"], p["c"]["a3"], p["c"]["min"]]))
    for p in cases:
        if _ST["stride"] > 1 and n % 3:
            n += 1
            continue
        n += 1
        nt += 1 if p["outcome"] != "mesh" or p["mesh"] != p["common"] else 0
        f = ad.run_case(p, hc)
        if f:
            rep.violation("commonmesh:%s:%s" % (fam, f[0]), "generateCommonMesh differs from CommonMesh for %s: %s" % (json.dumps(p["c"]), f[1]),
                          {"direction": "replay", "kind": "common", "case": p, "hc": hc})
    rep.add_replay("common-mesh-cases:" + fam, n, nt, "every enumerated three-assembly core is built (real Reactor/Core/HexAssembly) and "
                   "UniformMeshGenerator run on it; compared: outcome (mesh / ValueError from averaging / ValueError from anchors), the "
                   "average mesh and the final mesh; non-trivial = decusping changes the average mesh or the call must raise")
    rep.sample({"kind": "common-mesh-case", "case": cases[len(cases) // 2]})


def _check_average(rep, r):
    import numpy as np
    from armi.utils.mathematics import average1DWithinTolerance

    cases = [p for p in r.prints if isinstance(p, dict) and "rows" in p]
    if not any(p["ok"] and 0 < p["kept"] < len(p["rows"]) for p in cases) or not any(not p["ok"] for p in cases):
        raise tlc.MachineryError("average1DWithinTolerance cases vacuous")
    n = nt = 0
    for p in cases:
        n += 1
        nt += 1 if p["kept"] < len(p["rows"]) else 0
        f = run_average_case(p, average1DWithinTolerance, np)
        if f:
            rep.violation("average:%s" % f[0], "average1DWithinTolerance differs from AverageMesh for rows %s: %s" % (p["rows"], f[1]),
                          {"direction": "replay", "kind": "average", "case": p})
    rep.add_replay("average-cases", n, nt, "every enumerated array (2-4 rows) is passed to average1DWithinTolerance; compared: ValueError or the "
                   "returned means; non-trivial = at least one row is thrown out")
    rep.sample({"kind": "average-case", "case": cases[len(cases) // 2]})


def run_average_case(p, fn, np):
    try:
        got = [float(x) for x in fn(np.array(p["rows"], dtype=float) * FU)]
        ok = True
    except ValueError as ex:
        got, ok = str(ex)[:100], False
    if ok != p["ok"]:
        return ("raises" if not ok else "no-error", "expected %s, observed %s" % ("means" if p["ok"] else "ValueError", got))
    if ok:
        d = rp.diff([m * FU / 12.0 for m in p["mean"]], got, ".mean")
        if d:
            return ("mean", d)
    return None


def _check_core(rep, r, cfg):
    states = [p for p in r.prints if isinstance(p, dict) and "ini" in p]
    by_key = {(rp.skey(s["ini"]), rp.skey(s["hist"])): s for s in states}
    prefixes = {(rp.skey(s["ini"]), rp.skey(s["hist"][:k])) for s in states for k in range(len(s["hist"]))}
    leaves = [s for s in states if (rp.skey(s["ini"]), rp.skey(s["hist"])) not in prefixes]
    stages = {s["stage"] for s in states}
    if not {"conv", "solved", "back", "grown", "conv2"} <= stages or not any(len(s["obs"]["core"]) == 4 for s in states):
        raise tlc.MachineryError("core histories vacuous: stages %s" % stages)
    ad = CoreAdapter()
    done = set()
    for i, lf in enumerate(leaves):
        if _ST["stride"] > 1 and len(leaves) > 100 and i % _ST["stride"]:
            continue
        for d in run_core_history(ad, lf, by_key, done):
            mode = next((a["mode"] for a in d["behaviour"] if a["n"] == "Convert"), "-")
            rep.violation(key_of("core:" + mode, d), "real reactor diverges from CoreRemesh after %s on core %s: %s" % (
                json.dumps(d["behaviour"]), json.dumps(d["ini"]), d["first_difference"]),
                dict(d, direction="replay", kind="core", chain=[by_key[(rp.skey(lf["ini"]), rp.skey(lf["hist"][:k]))] for k in range(len(lf["hist"]) + 1)]))
    rep.add_replay("core-histories:" + cfg, len(done), len(done) - sum(1 for k in done if k[1] == "[]"),
                   "every maximal history TLC found (convert / solve / applyStateToOriginal / grow / convert again, per converter class and mode) "
                   "is executed once on a real third-core Reactor; every prefix state is compared: all assemblies of the original and of the "
                   "converted core (heights, densities, 8 parameters, atoms, integrated totals), the common mesh and a core parameter")
    rep.extra["core_histories"] = {"leaves": len(leaves), "states_compared": len(done)}
    mid = leaves[len(leaves) // 2]
    rep.sample({"kind": "core-history", "ini": mid["ini"], "hist": mid["hist"], "expected_mesh": mid["obs"]["mesh"]})


def replay(payload):
    armi_ready()
    kind = payload.get("kind")
    if payload.get("direction") == "tlc":
        print(payload.get("trace", "")[:4000])
        return 1
    if kind == "remesh":
        chain = payload["chain"]
        by_key = {(rp.skey(s["ini"]), rp.skey(s["hist"])): s for s in chain}
        d = run_remesh_state(RemeshAdapter(payload.get("zu", ZU)), chain[-1], by_key)
        print(json.dumps(d, indent=1, default=str)[:6000] if d else "no divergence: behaviour conforms")
        return 1 if d else 0
    if kind == "resample":
        f = run_resample_case(payload["case"], payload["input"])
        print(json.dumps([x[:2] for x in f], indent=1) if f else "no divergence: case conforms")
        return 1 if f else 0
    if kind == "filter":
        import random

        f = run_filter_case(payload["case"], random.Random(0))
        print(f if f else "no divergence: case conforms")
        return 1 if f else 0
    if kind == "core":
        chain = payload["chain"]
        by_key = {(rp.skey(x["ini"]), rp.skey(x["hist"])): x for x in chain}
        ds = run_core_history(CoreAdapter(), chain[-1], by_key, set())
        print(json.dumps([{k: v for k, v in d.items() if k != "expected"} for d in ds], indent=1, default=str)[:6000] if ds else "no divergence: history conforms")
        return 1 if ds else 0
    if kind == "average":
        import numpy as np
        from armi.utils.mathematics import average1DWithinTolerance

        f = run_average_case(payload["case"], average1DWithinTolerance, np)
        print(f if f else "no divergence: case conforms")
        return 1 if f else 0
    if kind == "common":
        f = CommonMeshAdapter().run_case(payload["case"], payload["hc"])
        print(f if f else "no divergence: case conforms")
        return 1 if f else 0
    print("unknown payload kind")
    return 2


# ------------------------------------------------------------------------------------------------------------
# binding demonstration: realistic in-process mutants of the anchored code
# ------------------------------------------------------------------------------------------------------------
def _src_mutant(owner, name, old, new, also=()):
    """context manager factory: re-compile owner.name with `old` replaced by `new` (must occur) and patch it in;
    old may be a list of (old, new) pairs (then new is ignored)"""
    import contextlib
    import inspect
    import textwrap

    from harness.selftest import patched

    f = owner.__dict__[name]
    raw = f.__func__ if isinstance(f, (staticmethod, classmethod)) else f
    src = inspect.getsource(raw)  # replacement texts carry the indentation of the source file
    for o_, n_ in (old if isinstance(old, list) else [(old, new)]):
        if o_ not in src:
            raise tlc.MachineryError("mutant text not found in %s.%s: %r" % (getattr(owner, "__name__", owner), name, o_))
        src = src.replace(o_, n_)
    lines = textwrap.dedent(src).splitlines()
    while lines[0].lstrip().startswith("@"):
        lines.pop(0)
    ns = {}
    exec(compile("\n".join(lines), "<mutant of %s>" % name, "exec"), raw.__globals__, ns)  # noqa: S102
    g = ns[raw.__name__]
    g = staticmethod(g) if isinstance(f, staticmethod) else g

    @contextlib.contextmanager
    def cm():
        with contextlib.ExitStack() as st:
            st.enter_context(patched(owner, name, g))
            for other in also:
                st.enter_context(patched(other, name, g))
            yield

    return cm


def selftest():
    import time

    from harness.report import Report

    armi_ready()
    from armi.reactor import assemblies
    from armi.reactor.converters import uniformMesh as um
    from armi.utils import mathematics

    from armi.reactor import blocks, cores

    A = assemblies.Assembly
    NC = um.NeutronicsUniformMeshConverter
    GC = um.GammaUniformMeshConverter
    C = um.UniformMeshGeometryConverter
    G = um.UniformMeshGenerator
    M = _src_mutant
    mutants = [
        ("remesh", "getBlocksBetweenElevations: overlap height = whole block height", lambda: M(A, "getBlocksBetweenElevations", "heightHere = top - bottom", "heightHere = b.getHeight()")),
        ("remesh", "getBlocksBetweenElevations: blocks below 30% overlap dropped, height check loosened",
         lambda: M(A, "getBlocksBetweenElevations", "> EPS:", "> 0.3:")),
        ("remesh", "getBlocksBetweenElevations: touching blocks reported with zero overlap", lambda: M(A, "getBlocksBetweenElevations", "> EPS:", ">= 0.0:")),
        ("remesh", "getBlocksBetweenElevations: height check removed and upper clip forgotten",
         lambda: M(A, "getBlocksBetweenElevations", "top = min(b.p.ztop, zUpper)", "top = b.p.ztop")),
        ("remesh", "getBlocksBetweenElevations: height check by exact equality (only nearly coincident points notice)",
         lambda: M(A, "getBlocksBetweenElevations", "if abs(totalHeight - expectedHeight) > 1e-5:", "if totalHeight != expectedHeight:")),
        ("remesh", "seed C11-3.2: createHomogenizedCopy sizes the homogenised hexagon with the cold pitch",
         lambda: M(blocks.HexBlock, "createHomogenizedCopy", "self._pitchDefiningComponent[1],", "self._pitchDefiningComponent[0].getDimension(self.PITCH_DIMENSION, cold=True),")),
        ("remesh", "seed C11-3.4: getBlocksBetweenElevations memoises its answer per window on the assembly",
         lambda: M(A, "getBlocksBetweenElevations", [
             ("        EPS = 1e-10\n        blocksHere = []\n", "        EPS = 1e-10\n        cacheKey = (\"blocksBetweenElevations\", float(zLower), float(zUpper))\n"
              "        blocksHere = self._getCached(cacheKey)\n        if blocksHere is not None:\n            return list(blocksHere)\n        blocksHere = []\n"),
             ("        return blocksHere\n", "        self._setCache(cacheKey, tuple(blocksHere))\n        return blocksHere\n")], None)),
        ("remesh", "setAssemblyStateFromOverlaps: integrated/averaged denominators swapped",
         lambda: M(C, "setAssemblyStateFromOverlaps", "if paramMapper.isVolIntegrated[paramName]:", "if not paramMapper.isVolIntegrated[paramName]:")),
        ("remesh", "setAssemblyStateFromOverlaps: peak parameters averaged", lambda: M(C, "setAssemblyStateFromOverlaps", "if paramMapper.isPeak[paramName]:", "if False:")),
        ("remesh", "setAssemblyStateFromOverlaps: peak takes the smallest overlapped value",
         lambda: M(C, "setAssemblyStateFromOverlaps", "updatedDestVals[paramName] = max(\n                                sourceBlockVal, updatedDestVals[paramName]\n                            )",
                   "updatedDestVals[paramName] = min(sourceBlockVal, updatedDestVals.get(paramName, sourceBlockVal))")),
        ("remesh", "seed C11-5: peak ignores overlaps thinner than 0.1% of the destination cell",
         lambda: M(C, "setAssemblyStateFromOverlaps", "                        if paramMapper.isPeak[paramName]:\n",
                   "                        if paramMapper.isPeak[paramName]:\n"
                   "                            if sourceBlockOverlapHeight < 1e-3 * destinationBlockHeight:\n"
                   "                                continue\n")),
        ("remesh", "setAssemblyStateFromOverlaps: None counted as 0.0", lambda: M(C, "setAssemblyStateFromOverlaps", "if sourceBlockVal is None:\n                            continue", "if sourceBlockVal is None:\n                            sourceBlockVal = 0.0")),
        ("remesh", "setNumberDensitiesFromOverlaps: weight = overlap / source block height",
         lambda: M(um, "setNumberDensitiesFromOverlaps", "overlappingHeightInCm / blockHeightInCm", "overlappingHeightInCm / overlappingBlock.getHeight()")),
        ("remesh", "makeAssemWithUniformMesh: number densities not mapped (copies of the source block kept)",
         lambda: M(C, "makeAssemWithUniformMesh", "            paramMapper,\n            mapNumberDensities,\n        )", "            paramMapper,\n            False,\n        )")),
        ("remesh", "setBlockMesh: density factor inverted", lambda: M(A, "setBlockMesh", "heightRatio = oldBlockHeight / b.getHeight()", "heightRatio = b.getHeight() / oldBlockHeight")),
        ("remesh", "setBlockMesh auto: fluids conserved below the fuel", lambda: M(A, "_shouldMassBeConserved", "if not isinstance(comp.material, Fluid)", "if True")),
        ("remesh", "setBlockMesh auto: belowFuelColumn never cleared", lambda: M(A, "setBlockMesh", "belowFuelColumn = False", "pass")),
        ("remesh", "setBlockMesh: bottom of the next block not advanced", lambda: M(A, "setBlockMesh", "            zBottom = newTop", "            pass")),
        ("remesh", "getBlockAtElevation: block bottom belongs to the block", lambda: M(A, "getBlockAtElevation", "and bottomOfBlock < elevation", "and bottomOfBlock <= elevation")),
        ("resample", "resampleStepwise: right partial bin not trimmed", lambda: M(mathematics, "resampleStepwise", "inside[-1] -= 1.0 - fraction", "pass")),
        ("resample", "resampleStepwise avg: plain mean of the overlapped values", lambda: M(mathematics, "resampleStepwise", "yout.append(weighted_sum / sum(weights))", "yout.append(sum(chunk) / len(chunk))")),
        ("resample", "resampleStepwise: zero-width overlap kept on the right", lambda: M(mathematics, "resampleStepwise", "chunk = chunk[:-1]\n                length = length[:-1]\n                inside = inside[:-1]", "pass")),
        ("resample", "resampleStepwise (defect fixed in /repo): doubly partial bin multiplies both fractions",
         lambda: M(mathematics, "resampleStepwise", "inside[0] -= 1.0 - fraction", "inside[0] *= fraction")),
        ("resample", "resampleStepwise (defect fixed in /repo): sum mode scales the caller's values in place",
         lambda: M(mathematics, "resampleStepwise", "yout.append(sum([ch * f for ch, f in zip(chunk, inside)]))",
                   "[chunk.__setitem__(j, chunk[j].__imul__(f) if hasattr(chunk[j], '__len__') else chunk[j] * f) for j, f in enumerate(inside)]\n            yout.append(sum(chunk))")),
        ("resample", "resampleStepwise (defect fixed in /repo): None multiplied before the None test",
         lambda: M(mathematics, "resampleStepwise", "        # return the sum or the average\n", "        _ = [ch * f for ch, f in zip(chunk, inside)]\n")),
        ("filter", "_filterMesh: cells of exactly the minimum size removed", lambda: M(G, "_filterMesh", "if difference < minimumMeshSize:", "if difference <= minimumMeshSize:")),
        ("filter", "_filterMesh: anchors not protected", lambda: M(G, "_filterMesh", "if meshList[i + 1] in anchorPoints:\n                        removeIndex = i\n                    else:\n                        removeIndex = i + 1", "removeIndex = i + 1")),
        ("filter", "_filterMesh: anchor test on the wrong neighbour", lambda: M(G, "_filterMesh", "if meshList[i + 1] in anchorPoints:\n                        removeIndex = i", "if meshList[i] in anchorPoints:\n                        removeIndex = i")),
        ("filter", "_filterMesh: top preference sorts ascending", lambda: M(G, "_filterMesh", "sorted(list(set(meshList)), reverse=True)", "sorted(list(set(meshList)))")),
        ("filter", "_filterMesh: two close anchors tolerated silently", lambda: M(G, "_filterMesh", "raise ValueError(errorMsg)", "return sorted(meshList)")),
        ("average", "seed C11-2.1: average1DWithinTolerance computes the mean once, before the outlier filter",
         lambda: M(mathematics, "average1DWithinTolerance", [("    filterOut = np.array([False])", "    avg = vals.mean(axis=0)\n    filterOut = np.array([False])"),
                                                             ("        avg = vals.mean(axis=0)  # average over all columns\n", "")], None, also=(um, cores))),
        ("common", "seed C11-2.1: average1DWithinTolerance computes the mean once, before the outlier filter",
         lambda: M(mathematics, "average1DWithinTolerance", [("    filterOut = np.array([False])", "    avg = vals.mean(axis=0)\n    filterOut = np.array([False])"),
                                                             ("        avg = vals.mean(axis=0)  # average over all columns\n", "")], None, also=(um, cores))),
        ("core", "seed C11-2.1: average1DWithinTolerance computes the mean once, before the outlier filter",
         lambda: M(mathematics, "average1DWithinTolerance", [("    filterOut = np.array([False])", "    avg = vals.mean(axis=0)\n    filterOut = np.array([False])"),
                                                             ("        avg = vals.mean(axis=0)  # average over all columns\n", "")], None, also=(um, cores))),
        ("core", "seed C11-2.3: convert(), flagged branch: locator handed to Core.add instead of carried by the new assembly",
         lambda: M(C, "convert", [("                homogAssem.spatialLocator = assem.spatialLocator\n", ""),
                                  ("self.convReactor.core.add(homogAssem)", "self.convReactor.core.add(homogAssem, assem.spatialLocator)")], None)),
        ("core", "seed C11-2.4: _generateUniformMesh keeps the mesh of an earlier conversion",
         lambda: M(C, "_generateUniformMesh", "        generator = UniformMeshGenerator(", "        if self._uniformMesh is not None:\n            return\n        generator = UniformMeshGenerator(")),
        ("core", "seed C11-2.5: gamma converter does not map out what belongs to a category mapped in",
         lambda: M(GC, "_setParamsToUpdate", "        else:\n            excludeList = b.p.paramDefs.inCategory(parameters.Category.gamma).names",
                   "            for category in self.blockParamMappingCategories[\"in\"]:\n                excludeList = excludeList + b.p.paramDefs.inCategory(category).names\n"
                   "        else:\n            excludeList = b.p.paramDefs.inCategory(parameters.Category.gamma).names")),
        ("core", "neutronics converter maps cumulative parameters out", lambda: M(NC, "_setParamsToUpdate", "excludedCategories.append(parameters.Category.cumulative)\n", "pass\n")),
        ("core", "neutronics converter forgets the heavy-metal parameters on the way in", lambda: M(NC, "_setParamsToUpdate", "blockParamNames.extend(HEAVY_METAL_PARAMS)", "pass")),
        ("core", "applyStateToOriginal (flagged) maps number densities back", lambda: M(C, "applyStateToOriginal", "mapNumberDensities=False,", "mapNumberDensities=True,")),
        ("core", "applyStateToOriginal: a zero core parameter overwrites the cached original",
         lambda: M(C, "_mapStateFromReactorToOther", "                sourceReactor.core.p[paramName]\n                or paramName not in self._cachedReactorCoreParamData", "                True")),
        ("core", "applyStateToOriginal (flagged): the stored original assembly is not put back",
         lambda: M(C, "applyStateToOriginal", "                        self._sourceReactor.core.removeAssembly(assem, discharge=False)\n                        self._sourceReactor.core.add(storedAssem)\n", "")),
        ("core", "convert (new reactor): block parameters of the 'in' list are not mapped", lambda: M(C, "_buildAllUniformAssemblies", "paramMapper=self.paramMapper,", "paramMapper=None,")),
        ("common", "average1DWithinTolerance: rows exactly at the tolerance dropped",
         lambda: M(mathematics, "average1DWithinTolerance", "(diff > tolerance)", "(diff >= tolerance)", also=(um,))),
        ("common", "seed C11-1: _decuspAxialMesh bottoms pass anchors only the fuel bottoms",
         lambda: M(G, "_decuspAxialMesh", "            self.minimumMeshSize,\n            materialBottoms,\n", "            self.minimumMeshSize,\n            filteredBottomFuel,\n")),
        ("common", "_decuspAxialMesh: tops pass anchors only the fuel tops",
         lambda: M(G, "_decuspAxialMesh", "            self.minimumMeshSize,\n            materialTops,\n", "            self.minimumMeshSize,\n            filteredTopFuel,\n")),
        ("common", "_decuspAxialMesh: final filter without anchors", lambda: M(G, "_decuspAxialMesh", "materialAnchors,\n            preference=\"top\",", "[],\n            preference=\"top\",")),
        ("common", "_getFilteredMeshTopAndBottom: lowest top anchored instead of the highest", lambda: M(G, "_getFilteredMeshTopAndBottom", "(tops, \"top\", lastBlockTop, max)", "(tops, \"top\", lastBlockTop, min)")),
        ("common", "_computeAverageAxialMesh: first mesh point not skipped for the reference", lambda: M(G, "_computeAverageAxialMesh", "aMesh = src.core.findAllAxialMeshPoints([a])[1:]", "aMesh = src.core.findAllAxialMeshPoints([a])[:-1]")),
        ("common", "_decuspAxialMesh: control tops not added to the mesh", lambda: M(G, "_decuspAxialMesh", "list(self._commonMesh) + materialTops,", "list(self._commonMesh),")),
    ]

    def detect(parts, stride):
        _ST.update(on=True, parts=parts, stride=stride)
        try:
            rep = Report("C11", "quick", 0)
            run(rep, "quick", 0)
            return [v["key"] for v in rep.violations]
        finally:
            _ST.update(on=False, parts=None, stride=1)

    only = [x for x in os.environ.get("C11_SELFTEST_ONLY", "").split(",") if x]
    if only:
        mutants = [m for m in mutants if m[0] in only]
    t0 = time.time()
    base = {}
    for part in (only or PARTS):
        base[part] = detect((part,), 3 if part == "remesh" else 1)
        print("baseline %-9s %s" % (part, "clean" if not base[part] else "findings on the unchanged tree: %s" % base[part]))
    missed = 0
    for part, label, factory in mutants:
        try:
            with factory()():
                found = [k for k in detect((part,), 3 if part == "remesh" else 1) if k not in base[part]]
        except tlc.MachineryError:
            raise
        except Exception as ex:  # noqa: BLE001
            found = ["harness-exception:%s:%s" % (type(ex).__name__, str(ex)[:80])]
        if found:
            print("caught  %-95s %s" % (label, found[:2]))
        else:
            missed += 1
            print("MISSED  %-95s" % label)
    print("selftest: %d mutants, %d missed, %.1fs" % (len(mutants), missed, time.time() - t0))
    return 0 if not missed else 1


# ------------------------------------------------------------------------------------------------------------
# CoreRemesh: whole-core convert / applyStateToOriginal on a real third-core Reactor
# ------------------------------------------------------------------------------------------------------------
CZU = 10.0  # cm per whole unit of CoreRemesh (the model works in twelfths of a unit)
CORE_PNAME = {"HM": "massHmBOL", "I": "power", "IA": "mgFlux", "A": "pdens", "P": "fluxPeak", "GI": "mgFluxGamma", "GA": "mgGammaSrc",
              "CU": "detailedDpa"}
CORE_SCALAR = ("HM", "I", "A", "P", "CU")
CORE_POS = ((1, 1), (2, 1), (2, 2), (3, 2))   # ring, position of assemblies 1..4 in the third core (1 = centre, symmetry factor 3)
_SHELL = {}


class CoreAdapter:
    """A blueprint-built third-core Reactor (armi/tests/detailedAxialExpansion) is used as the shell: its assemblies are taken
    out and replaced by generated ones, so that converter.convert() can build its new reactor from real blueprints."""

    def __init__(self):
        armi_ready()
        from armi.reactor.converters import uniformMesh

        from harness import gen_assembly

        self.um, self.ga = uniformMesh, gen_assembly

    def shell(self):
        if "r" not in _SHELL:
            from armi.testing import loadTestReactor
            from armi.tests import TEST_ROOT

            o, r = loadTestReactor(inputFilePath=os.path.join(TEST_ROOT, "detailedAxialExpansion"))
            _SHELL["o"], _SHELL["r"] = o, r
            _SHELL["cs"] = {}
        r = _SHELL["r"]
        for a in list(r.core):
            r.core.removeAssembly(a, discharge=False)
        r.core.p.power = 0.0
        return _SHELL["o"], r

    def cs_for(self, mode):
        if mode not in _SHELL["cs"]:
            flags = {"new": [], "flagControl": ["control"], "flagFuel": ["fuel"]}[mode]
            _SHELL["cs"][mode] = _SHELL["o"].cs.modified(newSettings={"nonUniformAssemFlags": flags})
        return _SHELL["cs"][mode]

    def build(self, root):
        o, r = self.shell()
        sc = root["scale"]
        g = r.core.spatialGrid
        for k, a in enumerate(root["obs"]["core"]):
            n = len(a["tops"])
            t = [0] + a["tops"]
            heights = [(t[i + 1] - t[i]) * CZU / sc for i in range(n)]
            kinds = ["grid plate" if i == 0 else (("fuel" if a["asmFuel"] else "control") if i == 1 else "plenum") for i in range(n)]
            dens = [{NUCOF[c]: rat(a["n"][i][c]) * NU for c in NUCOF if rat(a["n"][i][c]) != 0} for i in range(n)]
            params = [{CORE_PNAME[p]: val(a["p"][i][p], p in CORE_SCALAR) for p in CORE_PNAME} for i in range(n)]
            asm = self.ga.build_assembly(heights, kinds, dens, params, assem_type="fuel" if a["asmFuel"] else "control",
                                         assem_num=r.incrementAssemNum())
            i, j = g.getIndicesFromRingAndPos(*CORE_POS[k])
            loc = g[int(i), int(j), 0]
            if k == 0:
                asm.spatialLocator = loc   # the values are those HELD at the centre: no rescaling by the symmetry factor on entry
                r.core.add(asm)
            else:
                r.core.add(asm, loc)
            want = 3.0 if k == 0 else 1.0
            if asm.getSymmetryFactor() != want:
                raise tlc.MachineryError("generated core: symmetry factor %s at %s" % (asm.getSymmetryFactor(), CORE_POS[k]))
        r.core.p.power = rat(root["obs"]["rp"])
        return {"r": r, "conv": None, "n": len(root["obs"]["core"]), "mode": None}

    def by_pos(self, core, n):
        m = {tuple(int(x) for x in a.spatialLocator.getRingPos()): a for a in core}
        return [m.get(CORE_POS[k]) for k in range(n)]

    def apply(self, w, act, post):
        n = act["n"]
        r = w["r"]
        if n == "Convert":
            cs = self.cs_for(act["mode"])
            w["mode"] = act["mode"]
            if act["cls"] == "neutronics":
                w["conv"] = self.um.NeutronicsUniformMeshConverter(cs=cs, calcReactionRates=False)
            else:
                w["conv"] = self.um.GammaUniformMeshConverter(cs=cs)
            w["conv"].convert(r)
        elif n == "Convert2":
            w["conv"].convert(r)
        elif n == "Solve":
            cr = w["conv"].convReactor
            for a, ao in zip(self.by_pos(cr.core, w["n"]), post["obs"]["conv"]):
                for b, pv in zip(a, ao["p"]):
                    for p, name in CORE_PNAME.items():
                        v = val(pv[p], p in CORE_SCALAR)
                        if v is None:
                            b.p[name] = None
                        else:
                            self.ga.set_param(b, name, v)
            cr.core.p.power = rat(post["obs"]["crp"])
        elif n == "Apply":
            w["conv"].applyStateToOriginal()
        elif n == "Grow":
            w["conv"].reset()
            for a in r.core:
                b = a[1]
                b.setHeight(b.getHeight() + act["d"] * CZU)
            r.core.updateAxialMesh()
        else:
            raise AssertionError("unknown action " + n)

    def project_asm(self, a):
        names = list(CORE_PNAME.values())
        inv = {v: k for k, v in CORE_PNAME.items()}
        bs = [self.ga.block_state(b, pnames=names) for b in a]
        tot = {"HM": [0.0], "I": [0.0], "IA": [0.0, 0.0], "GI": [0.0, 0.0]}
        for s in bs:
            for p in tot:
                v = s["p"][CORE_PNAME[p]]
                if v is not None:
                    v = v if isinstance(v, list) else [v]
                    tot[p] = [x + y for x, y in zip(tot[p], v)]
        return {"tops": [float(b.p.ztop) for b in a], "n": [{c: s["n"][NUCOF[c]] for c in NUCOF} for s in bs],
                "p": [{inv[k]: v for k, v in s["p"].items()} for s in bs],
                "atoms": {c: self.ga.atoms_per_area(a, NUCOF[c]) for c in NUCOF}, "tot": tot,
                "area": float(a[0].getArea())}

    def expect_asm(self, a, sc):
        k = len(a["tops"])
        return {"tops": [t * CZU / sc for t in a["tops"]], "n": [{c: rat(a["n"][i][c]) * NU for c in NUCOF} for i in range(k)],
                "p": [{p: val(a["p"][i][p], p in CORE_SCALAR) for p in CORE_PNAME} for i in range(k)],
                "atoms": {c: rat(a["atoms"][c]) * NU * CZU / sc for c in NUCOF}, "tot": {p: [rat(x) for x in a["tot"][p]] for p in a["tot"]}}

    def compare(self, w, st):
        """first difference between TLC's observation of this state and the real reactors"""
        sc, o, stage = st["scale"], st["obs"], st["stage"]
        mode = w["mode"]
        sides = []
        if stage in ("orig", "back", "grown") or mode == "new":
            sides.append(("core", w["r"].core, o["core"]))
        if stage in ("conv", "solved", "conv2"):
            sides.append(("conv", w["conv"].convReactor.core, o["conv"]))
        for label, core, exp in sides:
            real = self.by_pos(core, w["n"])
            if len(list(core)) != w["n"] or any(a is None for a in real):
                return ".%s: expected %d assemblies at %s, observed %s" % (label, w["n"], CORE_POS[: w["n"]], [str(a) for a in core])
            for k, (a, e) in enumerate(zip(real, exp)):
                d = rp.diff(self.expect_asm(e, sc), self.project_asm(a), ".%s[%d]" % (label, k), rtol=RTOL, atol=1e-30)
                if d:
                    return d
        if stage in ("conv", "solved", "conv2"):
            got = w["conv"]._uniformMesh if mode == "new" else w["conv"].convReactor.core.p.axialMesh[1:]
            d = rp.diff([x * CZU / sc for x in o["mesh"]], [float(x) for x in got], ".mesh", rtol=RTOL)
            if d:
                return d
            d = rp.diff(rat(o["crp"]), float(w["conv"].convReactor.core.p.power), ".coreParam.converted", rtol=RTOL)
            if d:
                return d
        if stage in ("orig", "back", "grown"):
            d = rp.diff(rat(o["rp"]), float(w["r"].core.p.power), ".coreParam.original", rtol=RTOL)
            if d:
                return d
        return None


def run_core_history(ad, leaf, by_key, done):
    """Execute one maximal history on a real reactor, comparing every prefix state not compared before.  -> list of divergences"""
    ini = rp.skey(leaf["ini"])
    hist = leaf["hist"]
    root = by_key[(ini, "[]")]
    k = 0
    out = []
    paths = set()
    try:
        w = ad.build(root)
        for k in range(len(hist) + 1):
            st = by_key[(ini, rp.skey(hist[:k]))]
            if k:
                ad.apply(w, hist[k - 1], st)
            if (ini, rp.skey(hist[:k])) in done:
                continue
            done.add((ini, rp.skey(hist[:k])))
            d = ad.compare(w, st)
            path = re.sub(r"\[\d+\]", "", (d or "").split(":")[0])
            if d and path not in paths:   # a difference that persists along the history is reported where it first appears
                paths.add(path)
                out.append({"first_difference": d, "ini": leaf["ini"], "behaviour": hist[:k], "action": hist[k - 1] if k else {"n": "Init"},
                            "expected": st["obs"]})
    except tlc.MachineryError:
        raise
    except Exception as ex:  # noqa: BLE001  an exception escaping a legal operation of armi is a divergence
        import traceback

        out.append({"first_difference": ".exception: %s escaped from the real code: %s" % (type(ex).__name__, str(ex)[:300]), "ini": leaf["ini"],
                    "behaviour": hist[:k], "action": hist[k - 1] if k else {"n": "Init"}, "observed": {"exception": traceback.format_exc()[-2500:]}})
    return out
