"""C09 -- CCCC nuclear-data files: record framing (CcccRecord) and per-format record grammars (CcccFormats).

spec -> code: TLC enumerates (a) every short sequence of record fields in both encodings and (b) every header of
every format over small ranges, checks the framing / presence / conservation laws in the specification and prints
each case with the expected frame counts, record sequence, field calls and container manifest; the harness runs the
real writers and readers once per case and compares.  code -> spec: long random field histories recorded from the
real record writers are validated by TLC against CcccRecord_trace.
"""
import json
import os
import random

from harness import common, tlc, tracecheck
from harness import replay as rp
from harness import gen_cccc as G
from harness.armi_env import armi_ready

MODDIR = os.path.join(common.SPEC, "cccc")
REC_ACTIONS = ("Open", "Close", "RwInt", "RwBool", "RwLong", "RwFloat", "RwDouble", "RwString", "RwList", "RwMatrix",
               "RwLongAscii", "ReadBack")
REC_INVARIANTS = "HeadEqualsTail HeadEqualsPayload PayloadIsSum CountersRestart CallsAreFields ReaderAcceptsOwn"


def _tlc_verdict(rep, label, res):
    rep.add_tlc(label, res)
    if res.violation:
        rep.violation("tlc:" + res.violation["name"], "TLC: %s violated in the specification (%s)" % (res.violation["name"], label),
                      {"direction": "tlc", "trace": res.violation["trace"][:20000]})


# ------------------------------------------------------------------------------------------------------------
# layer 1: records
# ------------------------------------------------------------------------------------------------------------
def record_key(case, obs, what):
    """Stable identifier of a record-layer divergence: encoding, first differing observable, field kinds."""
    enc = case["enc"]
    if obs and obs.get("width_class") and obs.get("streamlen") != sum(r["framelen"] for r in case["recs"]):
        return "ascii:width:" + obs["width_class"]      # a value printed wider than its fixed ASCII field
    kinds = []
    for rec in case["recs"]:
        for f in rec["fields"]:
            if f["k"] not in kinds:
                kinds.append(f["k"])
    return "record:%s:%s:%s" % (enc, what, "+".join(kinds) or "empty")


def check_record_case(case, seed):
    """-> list of (key, text, payload) for one printed case."""
    obs, problems = G.run_record_case(case, seed)
    out = []
    if obs is None:
        for k, t in problems:
            out.append((k, t, {"direction": "replay", "layer": "record", "case": case, "case_seed": seed}))
        return out
    exp = {"recs": [{"head": r["head"], "tail": r["tail"], "len": r["len"], "framelen": r["framelen"], "calls": r["calls"]}
                    for r in case["recs"]],
           "same": case["same"], "short": case["short"], "long": case["long"]}
    exp["streamlen"] = sum(r["framelen"] for r in case["recs"])
    d = rp.diff(exp, obs)
    if d:
        what = d.split(":")[0].strip(".")
        what = what.split(".")[-1] if "." in what else what
        import re as _re

        what = _re.sub(r"\[\d+\]", "", what)
        out.append((record_key(case, obs, what), "real record diverges from CcccRecord: %s" % d,
                    {"direction": "replay", "layer": "record", "case": case, "observed": obs, "first_difference": d, "case_seed": seed}))
    for k, t in problems:
        out.append((k, t, {"direction": "replay", "layer": "record", "case": case, "observed": obs, "case_seed": seed}))
    return out


def _nfields(case):
    return sum(len(r["fields"]) for r in case["recs"])


def _tags(case):
    return {(case["enc"], f["k"]) for r in case["recs"] for f in r["fields"]}


def run_records(rep, thorough, seed):
    # exhaustive: laws of the record machine
    for cfg in (["CcccRecord_mc_thorough.cfg"] if thorough else ["CcccRecord_mc.cfg"]) + ["CcccRecord_mc2.cfg"]:
        cov = cfg == "CcccRecord_mc2.cfg"       # -coverage doubles the cost; non-vacuity is read off the small config
        res = tlc.run("CcccRecord_mc", cfg, MODDIR, want_prints=False, timeout=3000, coverage=cov)
        _tlc_verdict(rep, "exhaustive:" + cfg, res)
        never = [a for a in REC_ACTIONS if res.coverage.get(a, (0, 0))[1] == 0] if cov else []
        if never:
            raise tlc.MachineryError("vacuous: record actions never taken in %s: %s" % (cfg, never))
    # emission: every case executed on the real classes
    cfgs = ["CcccRecord_emit_thorough.cfg" if thorough else "CcccRecord_emit.cfg", "CcccRecord_emit_values.cfg",
            "CcccRecord_emit_two.cfg"]
    n = nontriv = 0
    atomic = {}  # (enc, kind, vc) -> key of the single-field case that already explains the divergence
    sample = None
    for cfg in cfgs:
        res = tlc.run("CcccRecord_mc", cfg, MODDIR, workers=1, coverage=False, timeout=3000)
        _tlc_verdict(rep, "cases:" + cfg, res)
        cases = [p["case"] for p in res.prints if isinstance(p, dict) and "case" in p]
        if not cases:
            raise tlc.MachineryError("no record cases printed by %s" % cfg)
        cases.sort(key=_nfields)
        for i, case in enumerate(cases):
            n += 1
            nontriv += 1 if _nfields(case) else 0
            found = check_record_case(case, seed * 1000003 + i)
            if sample is None and _nfields(case) == 3:
                sample = case
            for key, text, payload in found:
                if key.startswith("ascii:width:"):
                    pass
                elif _nfields(case) == 1:
                    atomic.setdefault(next(iter(_tags(case))), key)
                else:
                    expl = [atomic[t] for t in sorted(_tags(case)) if t in atomic]
                    if expl:
                        key = expl[0]
                rep.violation(key, text, payload)
    rep.add_replay("record-cases", n, nontriv,
                   "every record stream TLC enumerates is written by the real Binary/AsciiRecordWriter, measured by an independent "
                   "frame parser, and read back by the real reader with the same, a shorter and a longer call sequence; "
                   "non-trivial = at least one field")
    # code -> spec: long random histories recorded from the real writers, validated by TLC
    traces = G.record_traces(300 if thorough else 80, 4, 40 if thorough else 25, seed)
    bad, stats = tracecheck.validate("CcccRecord_trace", "CcccRecord_trace.cfg", MODDIR, traces, timeout=3000)
    rep.add_tlc("trace-validation:records", stats["tlc"])
    rep.add_traces("record-writer-histories", len(traces), sum(len(t["ev"]) for t in traces),
                   "seeded random rw* histories (<= 4 records x <= 25/40 fields of random kind, width, length, shape) run on the "
                   "real writers; counter and buffered payload after every call and the measured frame at every close must be "
                   "a step of CcccRecord")
    for b in bad:
        ev = b["trace"]["ev"]
        k = b["matched"]
        nxt = ev[k] if k < len(ev) else {}
        a = nxt.get("a", {})
        key = atomic.get((b["trace"].get("enc"), a.get("k"))) or "trace:record:%s:%s" % (b["trace"].get("enc"), a.get("n0", "?"))
        rep.violation(key, "recorded writer history is not a behaviour of CcccRecord at event %d (%s): %s" % (
            k + 1, json.dumps(a), json.dumps(b.get("mismatch", {}))[:300]),
            {"direction": "trace", "layer": "record", "trace": b["trace"], "matched": k})
    if sample:
        rep.sample({"kind": "record-case", "enc": sample["enc"], "fields": [[f["k"], f["c"], f["n"], f["w"]] for f in sample["recs"][0]["fields"]],
                    "expected": {k: sample["recs"][0][k] for k in ("head", "tail", "len", "framelen")}})


def run(rep, tier, seed):
    thorough = tier == "thorough"
    armi_ready()
    tlc.sany("CcccRecord_mc", MODDIR)
    tlc.sany("CcccRecord_trace", MODDIR)
    run_records(rep, thorough, seed)
    rep.exhaustive = True


def replay(payload):
    armi_ready()
    if payload.get("layer") == "record":
        found = check_record_case(payload["case"], payload.get("case_seed", 0))
        for key, text, _ in found:
            print(key, "::", text)
        print("diverges" if found else "no divergence: case conforms")
        return 1 if found else 0
    print("replay of direction=%s: see payload" % payload.get("direction"))
    return 0


def selftest():
    return 0
