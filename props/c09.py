"""C09 -- CCCC nuclear-data files: record framing (CcccRecord) and per-format record grammars (CcccFormats).

spec -> code: TLC enumerates (a) every short sequence of record fields in both encodings and (b) every header of
every format over small ranges, checks the framing / presence / conservation laws in the specification and prints
each case with the expected frame counts, record sequence, field calls and container manifest; the harness runs the
real writers and readers once per case and compares.  code -> spec: long random field histories recorded from the
real record writers are validated by TLC against CcccRecord_trace.  Shipped fixture files are re-written and
byte-compared.
"""
import concurrent.futures
import json
import os
import re

from harness import common, tlc, tracecheck
from harness import replay as rp
from harness import gen_cccc as G
from harness.armi_env import armi_ready

MODDIR = os.path.join(common.SPEC, "cccc")
REC_ACTIONS = ("Open", "Close", "RwInt", "RwBool", "RwLong", "RwFloat", "RwDouble", "RwString", "RwList", "RwMatrix",
               "RwLongAscii", "ReadBack")
FORMATS = ("GEODST", "DIF3D", "NHFLUX", "LABELS", "PWDINT", "RTFLUX", "RZFLUX", "FIXSRC", "ISOTXS", "GAMISO", "PMATRX", "DLAYXS", "COMPXS")
FMT_GROUPS = ("a", "b", "c")
NWORKERS = 3          # worker processes running the real code (lanes of harness/gen_cccc.run_jobs)


def _tlc_verdict(rep, label, res):
    rep.add_tlc(label, res)
    if res.violation:
        rep.violation("tlc:" + res.violation["name"], "TLC: %s violated in the specification (%s)" % (res.violation["name"], label),
                      {"direction": "tlc", "trace": res.violation["trace"][:20000]})


def launch(thorough, only=None):
    """All TLC runs of the tier, a few at a time (each is single-threaded except the exhaustive record config)."""
    t = "_thorough" if thorough else ""
    jobs = {
        "rec_mc": ("CcccRecord_mc", "CcccRecord_mc%s.cfg" % t, dict(workers=8, coverage=False, want_prints=False)),
        "rec_mc2": ("CcccRecord_mc", "CcccRecord_mc2.cfg", dict(workers=2, coverage=True, want_prints=False)),
        "rec_emit": ("CcccRecord_mc", "CcccRecord_emit%s.cfg" % t, dict(workers=1, coverage=False)),
        "rec_vals": ("CcccRecord_mc", "CcccRecord_emit_values.cfg", dict(workers=1, coverage=False)),
        "rec_two": ("CcccRecord_mc", "CcccRecord_emit_two.cfg", dict(workers=1, coverage=False)),
    }
    for g in FMT_GROUPS:
        jobs["fmt_" + g] = ("CcccFormats_mc", "CcccFormats_emit_%s%s.cfg" % (g, t), dict(workers=1, coverage=False))
    if thorough:
        jobs["fmt_mc"] = ("CcccFormats_mc", "CcccFormats_mc_thorough.cfg", dict(workers=8, coverage=True, want_prints=False))
    if only:
        jobs = {k: v for k, v in jobs.items() if k in only}
    out = {}
    with concurrent.futures.ThreadPoolExecutor(max_workers=5) as ex:
        futs = {k: ex.submit(tlc.run, mod, cfg, MODDIR, timeout=3000, **kw) for k, (mod, cfg, kw) in jobs.items()}
        for k, f in futs.items():
            out[k] = f.result()
            out[k].cfgname = jobs[k][1]
    return out


# ------------------------------------------------------------------------------------------------------------
# layer 1: records
# ------------------------------------------------------------------------------------------------------------
def record_key(case, obs, what):
    """Stable identifier of a record-layer divergence: encoding, first differing observable, field kinds."""
    enc = case["enc"]
    if obs and obs.get("width_class") and obs.get("streamlen") != sum(r["framelen"] for r in case["recs"]):
        return "ascii:width:" + obs["width_class"]      # a value printed wider than its fixed ASCII field
    kinds = []
    for rec in case["recs"]:
        for f in rec["fields"]:
            if f["k"] not in kinds:
                kinds.append(f["k"])
    return "record:%s:%s:%s" % (enc, what, "+".join(kinds) or "empty")


def check_record_case(case, seed):
    """-> list of (key, text, payload) for one printed case."""
    base = {"direction": "replay", "layer": "record", "case": case, "case_seed": seed}
    try:
        obs, problems = G.run_record_case(case, seed)
    except Exception as ex:  # noqa: BLE001 -- whatever the real classes left behind must end in a verdict, not a crash
        return [(record_key(case, None, "uninterpretable-" + type(ex).__name__), "record case could not be completed: %s: %s" % (type(ex).__name__, ex), dict(base))]
    out = []
    if obs is None:
        return [(k, t, dict(base)) for k, t in problems]
    exp = {"recs": [{"head": r["head"], "tail": r["tail"], "len": r["len"], "framelen": r["framelen"], "calls": r["calls"]}
                    for r in case["recs"]],
           "same": case["same"], "short": case["short"], "long": case["long"]}
    exp["streamlen"] = sum(r["framelen"] for r in case["recs"])
    d = rp.diff(exp, obs)
    wide = False
    if d:
        what = re.sub(r"\[\d+\]", "", d.split(":")[0]).strip(".").split(".")[-1]
        key = record_key(case, obs, what)
        wide = key.startswith("ascii:width:")
        if wide:
            text = ("ASCII record: a value is printed wider than its fixed field (%s): the stream has %d characters, the format %d; "
                    "the fixed-width reader cannot find the next field" % (obs["width_class"], obs["streamlen"], exp["streamlen"]))
        else:
            text = "real %s record diverges from CcccRecord: %s" % ("binary" if case["enc"] == "bin" else "ASCII", d)
        out.append((key, text, dict(base, observed=obs, first_difference=d)))
    if not wide:
        for k, t in problems:
            out.append((k, t, dict(base, observed=obs)))
    return out


# ------------------------------------------------------------------------------------------------------------
# jobs: everything that executes armi code runs in forked worker processes (harness/gen_cccc.run_jobs)
# ------------------------------------------------------------------------------------------------------------
_TIMEOUTS = {}


def _strip(found):
    """(key, text, payload) without the bulky case (the parent re-attaches it)."""
    return [(k, t, {a: b for a, b in (pl or {}).items() if a != "case"}) for k, t, pl in found]


def do_job(job):
    """Runs inside a worker.  -> picklable result."""
    kind = job[0]
    if kind == "record":
        return _strip(check_record_case(job[1], job[2]))
    if kind == "format":
        _, case, cseed, want_loca = job
        fmt = case["fmt"]
        if _TIMEOUTS.get(fmt, 0) >= 2:
            return {"skipped": "timeout-cap"}      # every further case would cost the watchdog time: verdict already recorded
        found = _strip(check_format_case(case, cseed))
        if any(":timeout:" in k for k, _, _ in found):
            _TIMEOUTS[fmt] = _TIMEOUTS.get(fmt, 0) + 1
        return {"found": found, "stages": check_format_case.stages,
                "loca": G.isotxs_loca(case, cseed, scratch()) if want_loca else None}
    if kind == "traces":
        return G.record_traces(*job[1:])
    if kind == "fixture":
        return G.run_fixture(job[1], scratch())
    raise ValueError(kind)


def crash_class(job):
    if job[0] == "format":
        return "%s|%s" % (job[1]["fmt"], job[1].get("cls"))
    if job[0] == "record":
        return "record|%s" % "+".join(sorted({t[1] for t in _tags(job[1])}))
    return job[0] + "|" + (job[1]["name"] if job[0] == "fixture" else "")


def crash_key(job, sig):
    """A worker died on this job (native crash of the code under test, or killed): that is the verdict for the job."""
    if job[0] == "format":
        return "%s:crash:%s:%s" % (job[1]["fmt"], sig, job[1].get("cls", "any")), (
            "%s [%s]: the process running the real reader / writer on this case died with %s" % (job[1]["fmt"], job[1].get("cls"), sig))
    if job[0] == "record":
        return record_key(job[1], None, "crash-" + sig), "the process running the real record classes on this case died with %s" % sig
    if job[0] == "fixture":
        return "fixture:%s:crash:%s" % (job[1]["name"], sig), "fixture %s: the process re-writing it died with %s" % (job[1]["name"], sig)
    return "trace:record:crash:%s" % sig, "the process recording writer histories died with %s" % sig


def run_jobs(jobs, nworkers):
    """-> list aligned with jobs of (status, result); 'error' (a harness problem inside a worker) is machinery."""
    out = G.run_jobs(jobs, do_job, nworkers=nworkers, crash_class=crash_class)
    for job, r in zip(jobs, out):
        if r is None:
            raise tlc.MachineryError("no result for job %s" % (job[0],))
        if r[0] == "error":
            raise tlc.MachineryError("worker failed on a %s job: %s" % (job[0], r[1]))
    return out


def _nfields(case):
    return sum(len(r["fields"]) for r in case["recs"])


def _tags(case):
    return {(case["enc"], f["k"]) for r in case["recs"] for f in r["fields"]}


def run_records(rep, thorough, seed, results):
    for k in ("rec_mc", "rec_mc2"):
        res = results[k]
        _tlc_verdict(rep, "exhaustive:" + res.cfgname, res)
    never = [a for a in REC_ACTIONS if results["rec_mc2"].coverage.get(a, (0, 0))[1] == 0]
    if never:
        raise tlc.MachineryError("vacuous: record actions never taken: %s" % never)
    n = nontriv = 0
    atomic = {}  # (enc, kind) -> key of the single-field case that already explains a divergence
    sample = None
    jobs = []
    for k in ("rec_emit", "rec_vals", "rec_two"):
        res = results[k]
        _tlc_verdict(rep, "cases:" + res.cfgname, res)
        cases = [p["case"] for p in res.prints if isinstance(p, dict) and "case" in p]
        if not cases:
            raise tlc.MachineryError("no record cases printed by %s" % res.cfgname)
        cases.sort(key=_nfields)
        jobs += [("record", case, seed * 1000003 + i) for i, case in enumerate(cases)]
    jobs.append(("traces", 300 if thorough else 80, 4, 40 if thorough else 25, seed))
    out = run_jobs(jobs, NWORKERS)
    for job, (status, res) in zip(jobs[:-1], out[:-1]):
        case = job[1]
        n += 1
        nontriv += 1 if _nfields(case) else 0
        if sample is None and _nfields(case) == 3:
            sample = case
        if status == "skipped":
            continue
        found = res if status == "ok" else [crash_key(job, res) + ({"direction": "replay", "layer": "record", "case_seed": job[2]},)]
        for key, text, payload in found:
            if key.startswith("ascii:width:"):
                pass
            elif _nfields(case) == 1:
                atomic.setdefault(next(iter(_tags(case))), key)
            else:
                expl = [atomic[t] for t in sorted(_tags(case)) if t in atomic]
                if expl:
                    key = expl[0]
            rep.violation(key, text, dict(payload, case=case))
    rep.add_replay("record-cases", n, nontriv,
                   "every record stream TLC enumerates is written by the real Binary/AsciiRecordWriter, measured by an independent "
                   "frame parser, and read back by the real reader with the same, a shorter and a longer call sequence; "
                   "non-trivial = at least one field")
    # code -> spec: long random histories recorded from the real writers, validated by TLC
    if out[-1][0] != "ok":
        k, t = crash_key(jobs[-1], out[-1][1])
        rep.violation(k, t, {"direction": "trace", "layer": "record"})
        traces = []
    else:
        traces = out[-1][1]
    bad = []
    if traces:
        bad, stats = tracecheck.validate("CcccRecord_trace", "CcccRecord_trace.cfg", MODDIR, traces, timeout=3000)
        rep.add_tlc("trace-validation:records", stats["tlc"])
    rep.add_traces("record-writer-histories", len(traces), sum(len(t["ev"]) for t in traces),
                   "seeded random rw* histories (<= 4 records x <= 25/40 fields of random kind, width, length, shape) run on the "
                   "real writers; counter and buffered payload after every call and the measured frame at every close must be "
                   "a step of CcccRecord")
    for b in bad:
        ev = b["trace"]["ev"]
        k = b["matched"]
        nxt = ev[k] if k < len(ev) else {}
        a = nxt.get("a", {})
        key = atomic.get((b["trace"].get("enc"), a.get("k"))) or "trace:record:%s:%s" % (b["trace"].get("enc"), a.get("n0", "?"))
        rep.violation(key, "recorded writer history is not a behaviour of CcccRecord at event %d (%s): %s" % (
            k + 1, json.dumps(a), json.dumps(b.get("mismatch", {}))[:300]),
            {"direction": "trace", "layer": "record", "trace": b["trace"], "matched": k})
    if sample:
        rep.sample({"kind": "record-case", "enc": sample["enc"], "fields": [[f["k"], f["c"], f["n"], f["w"]] for f in sample["recs"][0]["fields"]],
                    "expected": {k: sample["recs"][0][k] for k in ("head", "tail", "len", "framelen")}})
    if traces:
        rep.sample({"kind": "record-trace", "id": traces[0]["id"], "enc": traces[0]["enc"], "events": traces[0]["ev"][:4]})


# ------------------------------------------------------------------------------------------------------------
# layer 2: formats
# ------------------------------------------------------------------------------------------------------------
_SCRATCH = None


def scratch():
    global _SCRATCH
    if _SCRATCH is None:
        _SCRATCH = G.Scratch(common.workdir("c09"))
    return _SCRATCH


def check_format_case(case, seed):
    out = []
    for key, text, extra in G.run_format_case(case, seed, scratch()):
        out.append((key, text, {"direction": "replay", "layer": "format", "case": case, "case_seed": seed, "enc": extra["enc"]}))
    check_format_case.stages = G.run_format_case.last_stages
    return out


def run_formats(rep, thorough, seed, results):
    n = 0
    tags_seen, tags_absent = {}, {}
    per_fmt = {}
    loca_note = None
    sampled = False
    stage_counts = {}
    timeouts, skipped = {}, {}
    if "fmt_mc" in results:
        _tlc_verdict(rep, "exhaustive:" + results["fmt_mc"].cfgname, results["fmt_mc"])
        if results["fmt_mc"].coverage.get("EmitRecord", (0, 0))[1] == 0:
            raise tlc.MachineryError("vacuous: EmitRecord never taken")
    jobs = []
    loca_idx = None
    for grp in FMT_GROUPS:
        res = results["fmt_" + grp]
        _tlc_verdict(rep, "formats:%s" % res.cfgname, res)
        cases = [p["case"] for p in res.prints if isinstance(p, dict) and "case" in p]
        if not cases:
            raise tlc.MachineryError("no format cases printed by %s" % res.cfgname)
        for i, case in enumerate(cases):
            fmt = case["fmt"]
            per_fmt[fmt] = per_fmt.get(fmt, 0) + 1
            for t, cnt in case["counts"].items():
                (tags_seen if cnt > 0 else tags_absent).setdefault(fmt, set()).add(t)
            want_loca = (fmt == "ISOTXS" and loca_idx is None and case["h"]["nNuc"] == 2 and case["h"]["nsblok"] == 2 and 1 in case["h"]["ords"])
            if want_loca:
                loca_idx = len(jobs)
            jobs.append(("format", case, seed * 7919 + i, want_loca))
            if not sampled and fmt == "GEODST" and case["h"].get("IGOM") == 6:
                sampled = True
                rep.sample({"kind": "format-case", "fmt": fmt, "header": case["h"], "records": [[r["tag"], r["bytes"]] for r in case["recs"]],
                            "binlen": case["binlen"], "asclen": case["asclen"]})
    crashed = {}
    for job, (status, res) in zip(jobs, run_jobs(jobs, NWORKERS)):
        _, case, cseed, want_loca = job
        fmt = case["fmt"]
        base = {"direction": "replay", "layer": "format", "case": case, "case_seed": cseed}
        if status == "crash":
            key, text = crash_key(job, res)
            rep.violation(key, text, base)
            crashed[fmt] = crashed.get(fmt, 0) + 1
            n += 1
            d = stage_counts.setdefault(fmt, {}).setdefault("%s|%s" % (case.get("cls", "any"), "bin"), {})
            d["crash"] = d.get("crash", 0) + 1
            continue
        if status == "skipped" or "skipped" in res:
            skipped[fmt] = skipped.get(fmt, 0) + 1
            continue
        n += 1
        for key, text, payload in res["found"]:
            rep.violation(key, text, dict(payload, case=case))
        for enc, st in res["stages"].items():
            # how far each case got: a (known) finding stops only its own case and encoding, every other
            # enumerated header still runs all stages; the counts are measured, per format / class / encoding
            d = stage_counts.setdefault(fmt, {}).setdefault("%s|%s" % (case.get("cls", "any"), enc), {})
            d[st] = d.get(st, 0) + 1
        if want_loca and res["loca"] is not None and res["loca"] != case["loca"]:
            loca_note = ("observation outside the statement: ISOTXS 2D record LOCA (records to skip per nuclide) is written as %s for "
                         "header %s; with NSBLOK sub-blocks per scattering block CCCC-IV counts %s (isotxs.py "
                         "_computeNumIsotxsRecords ignores sub-blocking; the reader ignores LOCA)" % (res["loca"], json.dumps(case["h"]), case["loca"]))
    missing = [f for f in FORMATS if f not in per_fmt]
    if missing:
        raise tlc.MachineryError("vacuous: no cases for formats %s" % missing)
    for fmt, tags in tags_seen.items():
        never = [t for t in tags_absent.get(fmt, ()) if t not in tags]
        if never:
            raise tlc.MachineryError("vacuous: %s records %s never present in any enumerated header" % (fmt, never))
    if loca_note:
        rep.note(loca_note)
    for fmt, k in skipped.items():
        rep.note("%s: %d cases skipped after earlier cases of the same class ran into the %g s watchdog or killed their worker process "
                 "(reported as timeout / crash violations)" % (fmt, k, G.CASE_TIMEOUT))
    rep.extra["format_cases"] = per_fmt
    rep.extra["format_stage_reached"] = stage_counts
    # vacuity of the stages: every format must have cases that ran all stages (write, frames, read, read-back,
    # re-write, calls) in every encoding it has
    for fmt in FORMATS:
        for enc in (("bin",) if fmt == "FIXSRC" else ("bin", "asc")):
            done = sum(v.get("complete", 0) for k, v in stage_counts.get(fmt, {}).items() if k.endswith("|" + enc))
            if done == 0:
                rep.note("no %s %s case reached the last stage: read-back / re-write / call comparison of this encoding are masked by a finding" % (fmt, enc))
    rep.add_replay("format-cases", n, n,
                   "for every header TLC enumerates a container is built from the printed manifest, written (binary and ASCII) by the "
                   "real writer, the file's frame sequence is compared with the grammar, read back and compared datum by datum, "
                   "re-written and byte-compared, and the rw* calls of writer and reader are compared with the grammar's fields")


def run_fixtures(rep, thorough):
    jobs = [("fixture", fx) for fx in G.fixtures(thorough)]
    n = len(jobs)
    for job, (status, res) in zip(jobs, run_jobs(jobs, NWORKERS)):
        found = res if status == "ok" else ([crash_key(job, res)] if status == "crash" else [])
        for key, text in found:
            rep.violation(key, text, {"direction": "fixture", "layer": "fixture", "fixture": job[1]["name"]})
    rep.add_replay("fixtures", n, n, "files shipped with armi are read, re-written and byte-compared, directly and through the other encoding")


def run(rep, tier, seed):
    thorough = tier == "thorough"
    armi_ready()
    for m in ("CcccRecord_mc", "CcccRecord_trace", "CcccFormats_mc"):
        tlc.sany(m, MODDIR)
    results = launch(thorough)
    run_records(rep, thorough, seed, results)
    run_formats(rep, thorough, seed, results)
    run_fixtures(rep, thorough)
    rep.exhaustive = True
    rep.assume(
        "well-formed values: 32-bit integers; strings of printable ASCII, no longer than the field, without trailing blanks "
        "(Hollerith fields are blank padded and rwString strips trailing blanks on read)",
        "format cases use ordinary magnitudes (|int| < 1e9, two-digit decimal exponents, float32-exact reals); numeric extremes are "
        "exercised field by field in the record layer (value classes of CcccRecord)",
        "the grammar is the documented format (CCCC-IV PRESENT-IF conditions quoted in the armi docstrings); features armi refuses "
        "explicitly (chi matrices, LABELS control-rod/burnup records, 1-D RTFLUX, VARIANT iwnhfl=2) and ISOTXS blocks with LORD > 1 "
        "are outside the domain",
        "ISOTXS/GAMISO file label: normalised to 'ISOTXS' by the reader on purpose (_updateFileLabel); containers carry that label, "
        "and the label bytes of armi/tests/ISOAA are masked in the fixture comparison",
        "ASCII fixtures are compared in text mode (labels.ascii is checked in with CRLF line ends)",
        "tolerances: reals of kind float come back within 2^-24 relative (IEEE single) in the binary encoding, every other value exactly",
    )


def replay(payload):
    armi_ready()
    layer = payload.get("layer")
    if layer == "record" and payload.get("direction") == "replay":
        job = ("record", payload["case"], payload.get("case_seed", 0))
    elif layer == "format":
        job = ("format", payload["case"], payload.get("case_seed", 0), False)
    elif layer == "fixture":
        fx = [f for f in G.fixtures(True) if f["name"] == payload["fixture"]]
        if not fx:
            print("fixture %s not found" % payload["fixture"])
            return 2
        job = ("fixture", fx[0])
    else:
        print("replay of direction=%s: see payload (TLC trace / recorded trace)" % payload.get("direction"))
        return 0
    status, res = run_jobs([job], 1)[0]      # in a worker process: a replayed crash must not take the replayer down
    if status == "crash":
        found = [crash_key(job, res)]
    elif job[0] == "format":
        found = [(k, t) for k, t, _ in res.get("found", [])]
    elif job[0] == "record":
        found = [(k, t) for k, t, _ in res]
    else:
        found = list(res)
    for key, text in found:
        print(key, "::", text)
    print("diverges" if found else "no divergence: case conforms")
    return 1 if found else 0


# ------------------------------------------------------------------------------------------------------------
# binding demonstration: in-process mutants of the anchored code; caught = a violation key the unmutated tree lacks
# ------------------------------------------------------------------------------------------------------------
def _patch(owner, name, old, new):
    """Re-define owner.name from its own source with `old` replaced by `new`; returns the undo function."""
    import inspect
    import textwrap

    orig = owner.__dict__[name] if isinstance(owner, type) else getattr(owner, name)
    fn = orig.__func__ if isinstance(orig, (staticmethod, classmethod)) else orig
    src = textwrap.dedent(inspect.getsource(fn))
    for o, n in ([(old, new)] if isinstance(old, str) else old):
        if o not in src:
            raise tlc.MachineryError("mutant does not apply: %r not in %s.%s" % (o, getattr(owner, "__name__", owner), name))
        src = src.replace(o, n)
    ns = {}
    exec(compile(src, "<mutant %s>" % name, "exec"), fn.__globals__, ns)  # noqa: S102
    setattr(owner, name, ns[name])
    return lambda: setattr(owner, name, orig)


def mutants():
    from armi.nuclearDataIO import cccc as pkg
    from armi.nuclearDataIO.cccc import cccc, dif3d, dlayxs, geodst, isotxs, labels, nhflux, pmatrx, rtflux

    R = ("record",)
    return [
        ("rwDouble-counts-4", "BinaryRecordWriter.rwDouble advances the frame counter by 4 instead of 8", R + ("DIF3D",),
         lambda: _patch(cccc.BinaryRecordWriter, "rwDouble", "self.numBytes += self._floatSize * 2", "self.numBytes += self._floatSize")),
        ("rwString-counts-len-val", "BinaryRecordWriter.rwString counts len(val) instead of the field width", R,
         lambda: _patch(cccc.BinaryRecordWriter, "rwString", "self.numBytes += length * self._characterSize", "self.numBytes += len(val)")),
        ("close-omits-trailer", "BinaryRecordWriter.close writes no trailing count", R,
         lambda: _patch(cccc.BinaryRecordWriter, "close", "    if self._hasRecordBoundaries:\n        self._stream.write(packedNumBytes)\n    self.data = None",
                        "    self.data = None")),
        ("reader-keeps-padding", "BinaryRecordReader.rwString does not strip the blank padding", R + ("LABELS",),
         lambda: _patch(cccc.BinaryRecordReader, "rwString", "s.rstrip().decode()", "s.decode()")),
        ("ascii-string-unpadded", "AsciiRecordWriter.rwString does not pad to the field width", R + ("LABELS",),
         lambda: _patch(cccc.AsciiRecordWriter, "rwString", '" {value:<{length}}".format(length=length, value=val)', '" {value}".format(value=val)')),
        ("rwList-writer-drops-last", "IORecord.rwList moves n-1 items when contents are given (writer) and n when reading", R + ("GEODST",),
         lambda: _patch(cccc.IORecord, "rwList", "return np.array([action(contents[ii]) for ii in range(length)])",
                        "return np.array([action(contents[ii]) for ii in range(length - (1 if length and contents[0] is not None else 0))])")),
        ("rwMatrix-reader-C-order", "IORecord._rwMatrix fills in C order when reading, Fortran order when writing", R + ("PWDINT", "NHFLUX"),
         lambda: _patch(cccc.IORecord, "_rwMatrix", [
             ("    fortranShape = list(reversed(shape))\n",
              "    fortranShape = list(reversed(shape))\n    creading = contents is None or not np.any(contents)\n    cshape = tuple(fortranShape)\n"),
             ("        fortranIndex = tuple(reversed(index))\n",
              "        fortranIndex = tuple(reversed(index))\n        if creading and len(shape) > 1 and 0 not in shape:\n"
              "            fortranIndex = np.unravel_index(np.ravel_multi_index(index, shape), cshape)\n")], None)),
        ("geodst-5D-and", "GEODST 5D record written iff IGOM > 0 *and* NBS > 0 (the docstring's wording)", ("GEODST",),
         lambda: _patch(geodst.GeodstStream, "readWrite", 'if geomType > 0 or self._metadata["NBS"] > 0:', 'if geomType > 0 and self._metadata["NBS"] > 0:')),
        ("geodst-nrass-swapped", "GEODST region maps: coarse map selected by NRASS == 1, fine map by NRASS == 0", ("GEODST",),
         lambda: _patch(geodst.GeodstStream, "readWrite", 'if self._metadata["NRASS"] == 0:\n            self._rw6DRecord()\n        elif self._metadata["NRASS"] == 1:',
                        'if self._metadata["NRASS"] == 1:\n            self._rw6DRecord()\n        elif self._metadata["NRASS"] == 0:')),
        ("isotxs-band-not-reversed-on-write", "ISOTXS 7D: the writer stores the band in ascending order, the reader still reverses", ("ISOTXS",),
         lambda: _patch(isotxs._IsotxsNuclideIO, "_rw7DRecord", "for xs in reversed(scatter[g, jdown:jup].tolist()):", "for xs in scatter[g, jdown:jup].tolist():")),
        ("isotxs-strpd-threshold", "ISOTXS 5D: STRPD vectors only moved when ISTRPD > 1", ("ISOTXS", "GAMISO"),
         lambda: _patch(isotxs._IsotxsNuclideIO, "_rw5DRecord", 'if self._metadata["strpd"] > 0:', 'if self._metadata["strpd"] > 1:')),
        ("isotxs-filewide-chi-flag", "ISOTXS 2D: file-wide chi vector moved when ICHIST >= 0", ("ISOTXS",),
         lambda: _patch(isotxs.IsotxsIO, "_rw2DRecord", 'if self._metadata["fileWideChiFlag"] == 1:', 'if self._metadata["fileWideChiFlag"] >= 0:')),
        ("labels-nsets-threshold", "LABELS 4D record present when NSETS > 0 instead of NSETS > 1", ("LABELS",),
         lambda: _patch(labels.LabelsStream, "readWrite", 'if self._metadata["numNuclideSets"] > 1:', 'if self._metadata["numNuclideSets"] > 0:')),
        ("nhflux-odd-moments-threshold", "NHFLUX 3D: odd-parity moments only moved when NMOMS > 1", ("NHFLUX",),
         lambda: _patch(nhflux.NhfluxStream, "_rwFluxMoments3D", 'self._metadata["nMoms"] > 0', 'self._metadata["nMoms"] > 1')),
        ("block-bandwidth-no-min", "getBlockBandwidth: JU = M*X without MIN0(NINTJ, .)", ("PWDINT", "RTFLUX", "RZFLUX"),
         lambda: _patch(pkg, "getBlockBandwidth", "jHigh = min(nintj, m * x)", "jHigh = m * x")),
        ("rtflux-single-precision", "RTFLUX 3D records moved with rwMatrix (single) instead of rwDoubleMatrix", ("RTFLUX",),
         lambda: _patch(rtflux.RtfluxStream, "_rw3DRecord", "record.rwDoubleMatrix(", "record.rwMatrix(")),
        ("dif3d-numorp-threshold", "DIF3D 4D record present when NUMORP > 1", ("DIF3D",),
         lambda: _patch(dif3d.Dif3dStream, "_rw4DRecord", 'if self._data.twoD["NUMORP"] != 0:', 'if self._data.twoD["NUMORP"] > 1:')),
        ("dlayxs-family-list-nkfam", "DLAYXS 3D: family-number list has NKFAM entries instead of 6", ("DLAYXS",),
         lambda: _patch(dlayxs.DlayxsIO, "_rwYield", "self.dlayxs.numPrecursorGroups,", 'self.metadata["nkfam"][ii],')),
        ("geodst-zwbb-as-float", "GEODST 5D: zonesWithBlackAbs moved as reals by writer and reader (same size, symmetric)", ("GEODST",),
         lambda: _patch(geodst.GeodstStream, "_rw5DRecord", 'self._data.zonesWithBlackAbs, "int", self._metadata["NZWBB"]', 'self._data.zonesWithBlackAbs, "float", self._metadata["NZWBB"]')),
        ("nhflux-variant-npcbdy-ignored", "NHFLUX 2D: VARIANT external-pointer count computed the Nodal way (NPCBDY ignored)", ("NHFLUX",),
         lambda: _patch(nhflux.NhfluxStream, "_getNumOuterSurfacesHex", 'if self._metadata["variantFlag"]:', 'if False:')),
        ("dlayxs-reader-label-24", "DLAYXS file id: the reader assumes a 24-character label", ("DLAYXS",),
         lambda: _patch(dlayxs.DlayxsIO, "_rwFileID", "else fileIdRecord.numBytes", "else 24")),
        ("reader-close-no-check", "BinaryRecordReader.close never compares the trailing count with the leading one", R,
         lambda: _patch(cccc.BinaryRecordReader, "close", "if numBytes2 != self.numBytes:", "if False:")),
        ("isotxs-7d-reader-indptr", "ISOTXS 7D: the reader's row pointer runs one ahead (fails for NSBLOK = 1 too: must not hide behind the "
         "listed NSBLOK = 2 finding of the same call site)", ("ISOTXS",),
         lambda: _patch(isotxs._IsotxsNuclideIO, "_rw7DRecord", "indptr.append(len(indices) + bandWidth)", "indptr.append(len(indices) + bandWidth + 1)")),
        ("dlayxs-binary-nkfam-count", "DLAYXS 2D: NKFAM list read/written with one entry too many only when reading (binary fails at the "
         "call site of the listed ASCII-only finding)", ("DLAYXS",),
         lambda: _patch(dlayxs.DlayxsIO, "_rwSpectra", 'self.metadata["nkfam"], "int", len(self.dlayxs)\n', 'self.metadata["nkfam"], "int", len(self.dlayxs) + (1 if self.metadata["nkfam"] is None else 0)\n')),
        # ---- second seeding round
        ("nhflux-odd-moments-slice", "NHFLUX 3D: the odd-parity block is sliced [:, nMoms:] instead of [:, nMom:] (VARIANT, nMoms # nMom)", ("NHFLUX",),
         lambda: _patch(nhflux.NhfluxStream, "_rwFluxMoments3D", [("contents[:, nMom:].T", 'contents[:, self._metadata["nMoms"]:].T'),
                                                                  ("contents[:, nMom:] = result.T", 'contents[:, self._metadata["nMoms"]:] = result.T')], None)),
        ("writer-close-skips-empty-record", "BinaryRecordWriter.close returns early for an empty record: no leading / trailing count", R + ("trace", "RZFLUX", "PWDINT", "LABELS"),
         lambda: _patch(cccc.BinaryRecordWriter, "close", "def close(self):\n", "def close(self):\n    if not self.data:\n        self.data = None\n        return\n")),
        ("pmatrx-filewide-order-loop", "PMATRX: production-matrix loop bounded by the file-wide order instead of the nuclide's own", ("PMATRX",),
         lambda: _patch(pmatrx._PmatrxNuclideIO, "_rwCellAveragedProductionMatrix", 'self._metadata["maxScatteringOrder"]', 'self._pmatrixIO._metadata["maxScatteringOrder"]')),
        ("nhflux-factory-adjoint-variant", "nhflux.getNhfluxReader(adjoint, variant) returns NhfluxStreamVariant for adjoint VARIANT files", ("NHFLUX",),
         lambda: _patch(nhflux, "getNhfluxReader", "reader = NafluxStreamVariant if variantFlag else NafluxStream", "reader = NhfluxStreamVariant if variantFlag else NafluxStream")),
        ("rtflux-factory-swapped", "rtflux.getFDFluxReader returns the real-flux stream for adjoint files", ("RTFLUX",),
         lambda: _patch(rtflux, "getFDFluxReader", "if adjointFlag:", "if not adjointFlag:")),
        ("pmatrx-loop-bound-free-integer", "PMATRX: production-matrix loop bounded by an unrelated header integer (~1e7 iterations): the watchdog must turn it into a verdict", ("PMATRX",),
         lambda: _patch(pmatrx._PmatrxNuclideIO, "_rwCellAveragedProductionMatrix", 'self._metadata["maxScatteringOrder"]', 'abs(self._pmatrixIO._metadata["maxNumberOfRegions"])')),
        # ---- third seeding round: native crash of the code under test (scipy given inconsistent CSR indices)
        ("isotxs-reader-band-ends-at-diagonal", "ISOTXS 7D reader places each band as if it ended at the in-group term (ignores JJ): with "
         "up-scatter the rows come back shifted, or scipy aborts the process on the inconsistent indices", ("ISOTXS", "GAMISO"),
         lambda: _patch(isotxs._IsotxsNuclideIO, "_rw7DRecord", "indices.extend(range(jup - 1, jdown - 1, -1))", "indices.extend(range(g, g - bandWidth, -1))")),
        ("isotxs-reader-segfault", "ISOTXS 5D reader dereferences a null pointer (stand-in for any native crash): the worker dies, the check must not", ("ISOTXS",),
         lambda: _patch(isotxs._IsotxsNuclideIO, "_rw5DRecord", "micros = self._getMicros()", "micros = self._getMicros()\n        if 'r' in self._isotxsIO._fileMode and self._metadata['strpd'] > 0:\n            import ctypes\n            ctypes.string_at(0)")),
        ("pmatrx-gamma-heating-flag", "PMATRX: gamma-heating record keyed on hasNeutronHeatingAndDamage", ("PMATRX",),
         lambda: _patch(pmatrx._PmatrxNuclideIO, "_rwGammaHeating", 'if not self._metadata["hasGammaHeating"]:', 'if not self._metadata["hasNeutronHeatingAndDamage"]:')),
    ]


def selftest():
    armi_ready()
    results = launch(False, only={"rec_emit", "rec_vals", "fmt_a", "fmt_b", "fmt_c"})
    rec_cases = [p["case"] for k in ("rec_emit", "rec_vals") for p in results[k].prints if isinstance(p, dict) and "case" in p]
    rec_cases = [c for c in rec_cases if _nfields(c) <= 2]
    fmt_cases = {}
    for g in FMT_GROUPS:
        for p in results["fmt_" + g].prints:
            if isinstance(p, dict) and "case" in p:
                fmt_cases.setdefault(p["case"]["fmt"], []).append(p["case"])

    def keys_for(scope):
        jobs = []
        for what in scope:
            if what == "record":
                jobs += [("record", c, i) for i, c in enumerate(rec_cases)]
            elif what == "trace":
                jobs.append(("traces", 30, 4, 12, 0))
            else:
                jobs += [("format", c, i, False) for i, c in enumerate(fmt_cases[what][:400])]
        ks = set()
        for job, (status, res) in zip(jobs, run_jobs(jobs, NWORKERS)):
            if status == "crash":
                ks.add(crash_key(job, res)[0])
            elif status == "skipped":
                continue
            elif job[0] == "record":
                ks.update(k for k, _, _ in res)
            elif job[0] == "format":
                ks.update(k for k, _, _ in res.get("found", []))
            else:
                bad, _ = tracecheck.validate("CcccRecord_trace", "CcccRecord_trace.cfg", MODDIR, res, timeout=600)
                for b in bad:
                    ev, k = b["trace"]["ev"], b["matched"]
                    a = (ev[k] if k < len(ev) else {}).get("a", {})
                    ks.add("trace:record:%s:%s%s" % (b["trace"].get("enc"), a.get("n0", "?"), (":" + a["k"]) if "k" in a else ""))
        return ks

    base = keys_for(("record", "trace") + FORMATS)
    print("baseline keys on the unmutated tree: %d" % len(base))
    missed = 0
    for name, desc, scope, apply in mutants():
        undo = apply()
        try:
            ks = keys_for(scope)
        finally:
            undo()
        new = sorted(ks - base)
        if new:
            print("caught  %-36s %s -> %s" % (name, desc, ", ".join(new[:3])))
        else:
            missed += 1
            print("MISSED  %-36s %s" % (name, desc))
    after = keys_for(("record", "trace") + FORMATS)
    if after != base:
        raise tlc.MachineryError("mutants were not undone cleanly: %s" % sorted(after ^ base))
    print("selftest: %d mutants, %d missed" % (len(mutants()), missed))
    return 0 if missed == 0 else 1
