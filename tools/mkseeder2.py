#!/usr/bin/env python3
"""usage: mkseeder2.py <PID> [K] -> round-2 seeder prompt that lists the round-1 changes to avoid."""
import glob, json, os, subprocess, sys
pid = sys.argv[1]; k = sys.argv[2] if len(sys.argv) > 2 else "5"
rnd = sys.argv[3] if len(sys.argv) > 3 else "2"
wt = "/tmp/seed%s-%s" % (rnd, pid.lower()); out = "/tmp/seedout%s-%s" % (rnd, pid.lower())
p = [json.loads(l) for l in open("/verif/properties.jsonl") if json.loads(l)["id"] == pid][0]
if not os.path.exists(wt):
    subprocess.run(["git", "-C", "/repo", "worktree", "add", "--detach", wt, "HEAD"], check=True, stdout=subprocess.DEVNULL)
os.makedirs(out, exist_ok=True)
t = open("/verif/tools/prompts/seeder.txt").read().format(WT=wt, OUT=out, PID=pid, TITLE=p["title"], STATEMENT=p["statement"], K=k)
prev = []
for d in sorted(glob.glob("/verif/seeded/%s-*" % pid)):
    m = json.load(open(d + "/meta.json"))
    prev.append("- files %s: %s" % (m.get("files"), str(m.get("needs", ""))[:260].replace("\n", " ")))
t += "\n\nALREADY TRIED IN AN EARLIER ROUND (do NOT repeat these or close variants of them; find DIFFERENT functions, clauses and trigger conditions —\nlook for the less obvious code paths that implement the property: alternative entry points, subclasses, helper functions, error paths,\ncaches, serialization hooks, boundary values, interactions between two features):\n" + "\n".join(prev) + "\n"
t += "\nNote: the code base has received many small bug fixes recently (see `git -C %s log --oneline | head -80`); do not simply revert one of those fixes.\n" % wt
fn = "/tmp/seedprompt%s-%s.txt" % (rnd, pid.lower())
open(fn, "w").write(t)
print(fn)
