#!/usr/bin/env python3
"""Markdown table of what the last run of every check covered (from evidence/*.json) — pasted into DESIGN.md §9.5."""
import glob, json, os
print("| id | tier | TLC states | TLC transitions | behaviours replayed + traces validated on real code | TLC runs | known findings matched | wall |")
print("|---|---|---|---|---|---|---|---|")
for f in sorted(glob.glob("/verif/evidence/C*.json")):
    e = json.load(open(f)); c = e["coverage"]
    print("| %s | %s | %s | %s | %s | %d | %d | %.0f s |" % (
        e["property_id"], e["tier"], c.get("states"), c.get("transitions"), c.get("traces_validated_against_impl"),
        len(c.get("tlc_runs", [])), len(c.get("known_findings_matched", [])), e.get("wall_s", 0)))
