#!/usr/bin/env python3
"""usage: keepseed.py <PID> <src-dir> <n> <caught_by-text> [initially_missed-text]"""
import json, os, shutil, sys
pid, src, n, caught = sys.argv[1:5]
missed = sys.argv[5] if len(sys.argv) > 5 else ""
dst = "/verif/seeded/%s-%s" % (pid, n)
os.makedirs(dst, exist_ok=True)
for f in ("patch.diff", "demo.py"):
    shutil.copy(os.path.join(src, f), dst)
m = json.load(open(os.path.join(src, "meta.json")))
m["property"] = pid
m["confirmed"] = {
    "demo_clean_exit": 0, "demo_patched_exit": "non-zero",
    "pinned_suite_on_patched_tree": "881/881 stable_pass still pass (tools/baseline.py --repo <worktree>)",
    "ran": "tools/tryseed.sh %s <seed> quick --tests  (scratch worktree + VERIF_REPO; /repo untouched)" % pid,
    "caught_by": caught,
}
if missed:
    m["confirmed"]["initially_missed"] = missed
json.dump(m, open(os.path.join(dst, "meta.json"), "w"), indent=1)
print(dst)
