#!/usr/bin/env python3
"""Print the markdown table of kept seeded changes (from seeded/*/meta.json)."""
import glob, json, os, collections
rows = collections.OrderedDict()
for d in sorted(glob.glob("/verif/seeded/*"), key=lambda x: (x.split("/")[-1].split("-")[0], int(x.split("-")[-1]))):
    pid, n = os.path.basename(d).split("-"); n = int(n)
    m = json.load(open(d + "/meta.json"))
    r = rows.setdefault(pid, {"r1": 0, "r1first": 0, "r2": 0, "r2first": 0, "r3": 0, "r3first": 0, "r4": 0, "r4first": 0, "miss": []})
    missed = "initially_missed" in m.get("confirmed", {})
    k = "r1" if n <= 5 else "r2" if n <= (11 if pid == "C01" else 10) else "r3" if n <= 20 else "r4"
    r[k] += 1
    if not missed:
        r[k + "first"] += 1
    else:
        t = m["confirmed"]["initially_missed"][:110]
        if t not in r["miss"]:
            r["miss"].append(t)
print("| property | round 1 kept (caught at first) | round 2 kept (caught at first) | round 3 kept (caught at first) | round 4 kept (caught at first) | what the misses led to |")
print("|---|---|---|---|---|---|")
for pid, r in rows.items():
    r3 = "%d (%d)" % (r["r3"], r["r3first"]) if r["r3"] else "—"
    r4 = "%d (%d)" % (r["r4"], r["r4first"]) if r["r4"] else "—"
    print("| %s | %d (%d) | %d (%d) | %s | %s | %s |" % (pid, r["r1"], r["r1first"], r["r2"], r["r2first"], r3, r4, "; ".join(r["miss"]) or "—"))
