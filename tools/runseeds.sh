#!/bin/sh
# usage: runseeds.sh <PID> <seedout-dir> "<n n n>" [--tests]   -> one summary line per seed, detail in /var/tmp/try-<PID>-<tag>.log
PID=$1; DIR=$2; LIST=$3; T=$4; TAG=$(basename $DIR)
LOG=/var/tmp/try-$PID-$TAG.log; : > $LOG
for i in $LIST; do
  echo "##### $PID seed $i" >> $LOG
  /verif/tools/tryseed.sh $PID $DIR/$i quick $T >> $LOG 2>&1
  OUT=$(awk "/##### $PID seed $i\$/{f=1;next} /^##### /{f=0} f" $LOG)
  C=$(echo "$OUT" | grep -A1 "clean demo" | tail -1); P=$(echo "$OUT" | grep -A1 "patched demo" | tail -1)
  M=$(echo "$OUT" | grep -o "missing=[0-9]*"); V=$(echo "$OUT" | grep -o "violations=[0-9]* known=[0-9]*")
  K=$(echo "$OUT" | grep VIOLATION | head -2 | sed 's/.*replays.//' | tr '\n' ' ')
  echo "$PID $TAG/$i clean[$C] patched[$P] $M $V :: $K"
done
