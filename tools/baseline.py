#!/venv/bin/python
"""Run the repository's pinned baseline (guard OFF) and compare with /root/.vp/BASELINE.json stable_pass."""
import json
import os
import subprocess
import sys
import tempfile
import xml.etree.ElementTree as ET

base = json.load(open("/root/.vp/BASELINE.json"))
out = tempfile.mktemp(suffix=".xml", dir="/var/tmp")
env = dict(os.environ)
env.pop("ARMI_VERIF_TRACE", None)
cmd = base["cmd"].replace("<file>", out)
if "--repo" in sys.argv:
    repo = sys.argv[sys.argv.index("--repo") + 1]
    cmd = cmd.replace("cd /repo", "cd " + repo)
    env["PYTHONPATH"] = repo
subprocess.run(cmd, shell=True, env=env, stdout=subprocess.DEVNULL if "-q" in sys.argv else None)
passed = set()
for tc in ET.parse(out).getroot().iter("testcase"):
    if not list(tc):
        passed.add("%s::%s" % (tc.get("classname"), tc.get("name")))
    elif all(ch.tag in ("system-out", "system-err", "properties") for ch in tc):
        passed.add("%s::%s" % (tc.get("classname"), tc.get("name")))
os.remove(out)
want = set(base["stable_pass"])
missing = sorted(want - passed)
print("stable_pass=%d passed_now=%d missing=%d" % (len(want), len(passed), len(missing)))
for m in missing[:50]:
    print("  MISSING", m)
sys.exit(1 if missing else 0)
