#!/usr/bin/env python3
"""usage: mkseeder.py <PID> [K]  -> creates worktree /tmp/seed-<pid>, out dir /tmp/seedout-<pid>, prompt file; prints prompt path"""
import json, os, subprocess, sys
pid = sys.argv[1]; k = sys.argv[2] if len(sys.argv) > 2 else "4"
wt = "/tmp/seed-%s" % pid.lower(); out = "/tmp/seedout-%s" % pid.lower()
p = [json.loads(l) for l in open("/verif/properties.jsonl") if json.loads(l)["id"] == pid][0]
if not os.path.exists(wt):
    subprocess.run(["git", "-C", "/repo", "worktree", "add", "--detach", wt, "HEAD"], check=True, stdout=subprocess.DEVNULL)
os.makedirs(out, exist_ok=True)
t = open("/verif/tools/prompts/seeder.txt").read().format(WT=wt, OUT=out, PID=pid, TITLE=p["title"], STATEMENT=p["statement"], K=k)
fn = "/tmp/seedprompt-%s.txt" % pid.lower()
open(fn, "w").write(t)
print(fn)
