#!/usr/bin/env python3
"""Regenerate MANIFEST.json from the table below (single place to edit)."""
import json
import os

HERE = os.path.dirname(os.path.dirname(os.path.abspath(__file__)))
ALL = ["C%02d" % i for i in range(1, 21)]

CHECKS = {
    "C01": dict(
        text="TLC checks the CompositeTree specification (one action per public mutator of Composite, refusals, "
             "deepcopy/pickle) exhaustively for small constants; every explored edge is then executed on real armi "
             "objects and the full projection incl. all traversal queries is compared with the state TLC computed; "
             "random long edit histories recorded from the real code are validated by TLC as behaviours of the "
             "specification. Right level: the property quantifies over edit histories, which is exactly what a state "
             "graph enumerates.",
        design="3/C01",
        note="Trusted: TLC, the adapter's projection (identity map, naive parent walk), legal-edit assumption "
             "(add/insert receive detached non-ancestor objects). Bounded: 3+2 nodes exhaustively (generic), 5+3 (typed and pins families), 5+3 nodes in traces. Three object families: generic Composite, HexAssembly>HexBlock>Circle, and the same with pin lattices and multi-index locators.",
        technique="TLA+ spec + TLC exhaustive check; edge replay into real Composite objects; TLC trace validation of recorded histories",
    ),
    "C07": dict(
        text="TLA+ lattice specifications (HexLattice: cube-coordinate geometric reference + line-by-line transcription of armi's ring/position "
             "arithmetic with theorems that they agree; CartLattice; GridGeom/Nested/Reduce for coordinates, nesting, reduce/rebuild, changePitch) are "
             "checked exhaustively by TLC over all cells within N rings, both orientations; every explored edge/case is then executed on real armi grids "
             "and compared field by field with the values TLC computed. Thorough tier: the closed forms (HexCore.tla, the operators TLC and the replay evaluate) "
             "are proved equal to the counter-clockwise walk for EVERY ring by an Apalache inductive invariant (HexSpiral).",
        design="3/C07, 9 and 9.2c",
        note="Trusted: TLC, projection of real grids to lattice integers (snap tolerance on coordinates). Bounded: hex N=9 rings quick / 24 thorough, "
             "Cartesian radius 6/14, nesting depth 3. Cartesian (ring,pos)->indices is a documented NotImplementedError (modelled as refusal).",
        technique="TLA+ lattice specs checked exhaustively with TLC; one implementation test per TLC state/edge on real grids; Apalache inductive invariant for the ring/position closed forms (thorough)",
    ),
    "C08": dict(
        text="HexSymmetry/CartSymmetry/BlockRotation specifications define symmetric images, domains, symmetry lines and rotations geometrically with exact "
             "integer lattice arithmetic next to transcriptions of armi's algorithms; TLC proves them equal over all cells within N rings and all k; every "
             "case/edge is replayed on real grids, blocks and assemblies; random rotation histories recorded from real code are validated by TLC.",
        design="3/C08 and 9",
        note="Trusted: TLC, snapping of real coordinates to lattice units (1e-9). Bounded: N=8/14 rings, |k|<=7/13 (+ large k), fixed menu of block layouts; "
             "eighth-core symmetries raise NotImplementedError in armi and are outside the domain.",
        technique="TLA+ symmetry/rotation specs + TLC; replay of every TLC case into real grids/blocks; TLC trace validation of recorded rotation histories",
    ),
    "C09": dict(
        text="CcccRecord (record state machine: open, rw* field steps, close, read back) and CcccFormats (per-format record grammar as a function of the header, "
             "PRESENT-IF table, byte-count laws) are checked by TLC; every enumerated field sequence and every (format, header) case is written by the real "
             "writers, parsed by an independent frame parser, compared with the record sequence TLC computed, read back, re-written and byte-compared, in "
             "binary and ASCII; recorded writer histories are validated by TLC. All real-code stages run in forked workers: a native crash is a verdict.",
        design="3/C09 and 9",
        note="Trusted: TLC, the independent frame parsers, the container builder driven by the spec's manifest. Counts 1..3 per dimension; meaning of numbers not "
             "modelled. Six known findings (ASCII field widths, DLAYXS ASCII read, ISOTXS/GAMISO sub-blocking) are listed in known_findings.json.",
        technique="TLA+ record/format grammar specs + TLC; files written by real code checked against the TLC-computed record sequence; read-back and byte-identical rewrite; TLC trace validation",
    ),
    "C15": dict(
        text="Operator.tla models the run loop one hook dispatch per action (BOL, per cycle BOC / nodes / coupled iterations / EOC, EOL, halt and convergence as "
             "environment choices) with the schedule, dispatch and argument clauses as invariants against a reference nested loop; OperatorDispatch models the "
             "interface stack (addInterface/removeInterface, flags, exclusion); CycleArithmetic states the (cycle,node)/cumulative conversions and step-length "
             "sums over exact rationals. TLC checks all of them exhaustively for small constants; every printed run is executed by a real Operator.operate() "
             "with recording interfaces and compared call by call; seeded larger runs are recorded and validated by TLC as traces.",
        design="3/C15 and 9",
        note="Trusted: TLC, the recording interfaces and the rig that builds a real operator on the smallest test reactor. Bounded: <=3 cycles, stacks <=2/3 "
             "exhaustively (<=4 cycles, stacks <=5 in traces). MPI and snapshot operators not covered.",
        technique="TLA+ operator/stack/cycle-arithmetic specs + TLC; every TLC run executed by a real Operator; TLC trace validation of recorded hook sequences",
    ),
    "C05": dict(
        text="ParamCodec.tla transcribes the database writer's decision procedure (Plan: which of the storage strategies a collection of parameter values takes, or "
             "reject), Encode/Decode for each strategy and the documented normal form NF; TLC checks RoundTrip / UnsetPositions / RefusalStoresNothing / "
             "ReadNeverFails over all collections of <= 3 (thorough 4) abstract entries from a 67-entry domain. FlagCodec.tla models flag packing with reordered / "
             "extended flag classes. Every TLC case is concretised and pushed through the real Database._writeParams -> HDF5 -> _readParams path and compared "
             "with NF as computed by TLC; random collections and flag histories recorded from the real code are validated by TLC.",
        design="3/C05 and 9",
        note="Trusted: TLC, the concretisation of abstract entries (two representatives per kind incl. sentinel-adjacent values), h5py in-memory files. "
             "Interpretations I1-I5 are in the module header. One known finding (numbers mixed with strings are stringified).",
        technique="TLA+ codec specs (decision procedure + normal form) + TLC; one real HDF5 round trip per TLC case; TLC trace validation of recorded collections",
    ),
    "C14": dict(
        text="FuelShuffle.tla models the core (children, location table, name tables, spent fuel pool, fresh feed, purged set, block lists with stationary flags, "
             "move counters) with one action per fuel-management operation (swap, cascade, discharge swap, add, remove/purge, refusals); inventory, one-per-location, "
             "lookup truthfulness, content and block-order clauses are invariants / action properties checked exhaustively by TLC; every explored edge is executed "
             "through a real FuelHandler / Core / SpentFuelPool on generated hex-full, hex-third and Cartesian cores; random 50-event shuffle histories are "
             "validated by TLC. Extra stage zones: Zones.tla (Zone/Zones API with refusals, findZoneItIsIn after fuel moves) checked by TLC and replayed on the real Core.zones.",
        design="3/C14, 9 and 9.2c",
        note="Trusted: TLC, the generated small cores (harness/gen_core.py), exact-float block fingerprints. Depth-bounded (4/5) because move counters grow. "
             "Bare moveTo to an empty cell and Core.add without any locator are outside the operation alphabet.",
        technique="TLA+ fuel-shuffling spec + TLC; edge replay through a real FuelHandler/Core/SFP; TLC trace validation of random shuffle histories",
    ),
    "C11": dict(
        text="AxialRemesh.tla (exact rationals over integer mesh points: MakeUniform, Solve, MapBack, Snap with the three conservation flags), Resample.tla, "
             "FilterMesh.tla/MeshFilterDefs.tla (line-by-line transcription of _filterMesh and the decusping pipeline) and CommonMesh.tla state conservation of "
             "atoms and integrated totals, height-weighted means, peaks, round-trip restoration, interval partition and the common-mesh guarantees as invariants; "
             "TLC checks all mesh pairs over small heights; every distinct TLC state is rebuilt on a real HexAssembly / core and the full observation compared; "
             "resampleStepwise, _filterMesh and generateCommonMesh are called once per enumerated case.",
        design="3/C11 and 9",
        note="Trusted: TLC, the assembly generator, float comparison rtol 1e-9 (1e-7 on meshes jittered by 1e-9 cm). No trace direction (floats vs exact rationals). "
             "Whole-reactor convert/applyStateToOriginal not covered.",
        technique="TLA+ exact-rational remeshing/filter specs + TLC; every TLC state replayed on real assemblies; one real call per enumerated filter/resample case",
    ),
    "C03": dict(
        text="ThermalExpansion.tla models two components (solid / inert / fluid / void / custom) with symbolic dimensions and number densities as monomials "
             "(integer exponent vectors over the materials' measured expansion / density factors, spec/common/Monomial.tla); setTemperature, setDimension "
             "(hot/cold, retainLink, refusals) and setLink are actions; path independence, density ~ factor^-2, area ~ factor^2, mass per height conserved, read-back, "
             "link equality and fluids/custom keeping dimensions are integer equalities TLC decides exactly. Behaviours are replayed on real components of every "
             "2-D shape class x library material (thorough: all 18 shape-roles x 57 materials), monomials evaluated with factors measured from the material, "
             "rtol 1e-9; recorded call histories are validated by TLC.",
        design="3/C03 and 9",
        note="Trusted: TLC, per-shape dimension tables stated from geometry, measured f(T)/rho(T) per material (the value of a correlation is an input). "
             "19 library materials with identically zero expansion refuse hot reads off Tinput (documented armi behaviour, modelled as a refusal).",
        technique="TLA+ monomial (exponent-vector) spec of thermal expansion + TLC; behaviours replayed on real shape x material components; TLC trace validation",
    ),
    "C02": dict(
        text="Inventory.tla models core > assemblies > blocks > component leaves with integer areas/heights/symmetry factors and exact rational number densities; "
             "the nine composition mutators (set/update/setAll/scale/clear/add/remove/setMass/setMassFracs, with refusals) are actions at any node; additivity of "
             "mass/volume/atoms, mass = density x volume, read-back and locality, mass-fraction laws and the densityTools conversions are invariants / step "
             "properties checked by TLC; AreaCache.tla models the hot/cold area cache. Every emitted edge is replayed on real HexBlocks of four shape families "
             "(atomic weights patched to the model's integers, plus a real-weight pass on weight-free observables); random edit histories are validated by TLC.",
        design="3/C02 and 9",
        note="Trusted: TLC, the block generator (free dimension calibrated to the model area), rational magnitude bounds. Assumes equal cross-section area of the "
             "blocks of an assembly. Known finding: component-level mass bookkeeping inside symmetry-cut blocks.",
        technique="TLA+ exact-rational inventory spec + TLC; edge replay on real blocks of several shape families; TLC trace validation of composition edits",
    ),
    "C16": dict(
        text="RetainState.tla carries both the statement's view (stack of scope frames with snapshots) and the mechanism as coded (pickled collection backups, "
             "class-level assigned flags, cache / material-cache / grid backups), with Enter/Exit/Assign/SetCache/SetGrid/Copy/MakeReadOnly/refusals as actions and "
             "ExitRestores, LIFO snapshot, cache-leak, copy-equality/independence, serial freshness and read-only clauses as invariants and step properties; TLC "
             "checks four instances exhaustively; every explored edge is executed on real assemblies/blocks/components/grids; random storms on the smallest test "
             "reactor (nested scopes to depth 4, copies, read-only) are validated by TLC.",
        design="3/C16 and 9",
        note="Trusted: TLC, the projection (parameter digests, assigned flags, caches, grid state). In-place writes behind the parameter system are not "
             "assignments. Known finding: pickle round trip keeps the serial number.",
        technique="TLA+ retain-state/copy/read-only spec + TLC; edge replay on real objects; TLC trace validation of random assignment storms",
    ),
    "C20": dict(
        text="XsGroupsLabels.tla enumerates all 52 + 2704 admissible labels (number = decimal concatenation of character codes, Back its inverse: NoCollision, RoundTrip); "
             "XsGroupsAvg/XsGroupsRep.tla define candidates, weights, refusal rule and the weight-normalised means / HM-weighted burnup / median member over exact "
             "rationals with the min-max, common-value, duplication and rescaling laws as invariants; XsGroups.tla models the CrossSectionGroupManager as a state "
             "machine (burn, heat, flux, enable/disable, makeGroups, createRepresentativeBlocks incl. refusal) with Partition, KeyDetermines, EnvironmentRule, "
             "BlocksUntouched. Every TLC case/edge is executed on real blocks and a real manager; random manager histories are validated by TLC.",
        design="3/C20 and 9",
        note="Trusted: TLC, generated two-component Custom-material HexBlocks, atomic weights patched to small integers for by-component temperatures. Cylinder/slab "
             "collections, lumped fission products and pre-generated cross sections are not covered. Temperature bounds are never hit exactly.",
        technique="TLA+ label/averaging/manager specs (exact rationals) + TLC; every TLC case on real BlockCollections and a real CrossSectionGroupManager; TLC trace validation",
    ),
    "C12": dict(
        text="AxialExpansion.tla transcribes the axial expansion changer over exact rationals: link detection, target-component selection, prescribed and thermal factor "
             "computation, axiallyExpandAssembly bottom-up, refusals; total height, contiguity, grid bounds, boundary-follows-target, linked-stay-stacked, round trip and "
             "the mass clauses are invariants checked exhaustively by TLC over a catalogue of assembly designs; every emitted behaviour is replayed on real assemblies "
             "built with armi's fake HT9 materials and recorded call histories are validated by TLC.",
        design="3/C12 and 9",
        note="Trusted: TLC, the assembly generator, link geometry from cold integer diameters. Two literal mass-conservation clauses of the statement are refuted by the "
             "code (known findings); the spec checks in their place what the code guarantees (MassAccounting, AlignedTargetMassConserved, UniformAssemblyMassConserved).",
        technique="TLA+ exact-rational transcription of the axial expansion changer + TLC; behaviours replayed on real assemblies; TLC trace validation",
    ),
    "C17": dict(
        text="SettingSchema.tla models the voluptuous subset armi uses, Setting._setSchema/setValue/dump and the named validators; TLC evaluates it over a catalog exported "
             "from the 154 live settings (+4 plugin-contributed) and prints, per setting and candidate value, verdict / stored value / dump / round-trip law. "
             "SettingsCase.tla is the state machine (assign, refusals, write in three styles, hand-edited files, read as overlay, old names, modified copies, "
             "duplicate/deepcopy/pickle) with 17 invariants. Every catalog case is assigned on a real Settings object, every edge of the plan graphs is executed through "
             "the stream and file APIs with whole classes of real settings, and random histories are validated by TLC.",
        design="3/C17 and 9",
        note="Trusted: TLC, the catalog export of live Setting declarations (a changed schema is judged only through the data laws), ~95 candidate values per setting. "
             "Non-enforced option lists are hints, as in the code.",
        technique="TLA+ schema + settings-case specs evaluated by TLC over the live settings catalog; per-case assignment and edge replay on real Settings; TLC trace validation",
    ),
    "C10": dict(
        text="LibraryMerge.tla models XS libraries as records of provenance ids (group structures, dose factors, velocity, file metadata, per-label neutron / gamma / "
             "production data and chi flags) with Merge and MergeRefused as field-by-field transcriptions of IsotxsLibrary.merge and its helpers; MergedIsUnion "
             "(order-free union: confluence + provenance), NoSilentCombine, RefusalsChangeNothing, RefusalJustified are checked by TLC over all scenarios of 3 (4) sources. "
             "Macros.tla states zero / additivity / homogeneity / derived-sum laws over exact rationals. Every merge edge is replayed on real libraries written and re-read "
             "by armi's own ISOTXS/GAMISO/PMATRX code (byte fingerprints identify whose data a library holds), every macro case runs the real functions on a real block, "
             "and random 5-source merge histories are validated by TLC.",
        design="3/C10 and 9",
        note="Trusted: TLC, byte fingerprints of generated libraries (2-3 groups), the rational micro tables. CompxsLibrary.merge and mergeXSLibrariesInWorkingDirectory not "
             "covered. Known finding (12 keys, one cause): a refused merge has already mutated the target.",
        technique="TLA+ library-merge (provenance ids) and macro (exact rationals) specs + TLC; merge edges replayed on real libraries; TLC trace validation of merge histories",
    ),
    "C18": dict(
        text="Blueprint.tla models an abstract blueprint document (custom isotopics, components with numeric or linked dimensions, blocks, assemblies with lists and "
             "material modifications, grids as text map or explicit list, systems) with 30 edit actions in 5 families; Verdict(doc) says well-formed or which refusal, "
             "Expected(doc) is the independent reading (cell -> design -> blocks -> components with links followed, multiplicities, temperatures, flags, compositions in "
             "weight-free units). AsciiMap(Defs).tla defines text maps as pictures of the lattice in grid coordinates (DrawReadsBack, Unambiguous, IsPicture ...). TLC "
             "enumerates documents and maps; every document is rendered to YAML, loaded and built by armi and compared with Expected (ill-formed ones must raise), "
             "maps are read / written / re-read by the real classes, and real writer outputs are validated by TLC.",
        design="3/C18 and 9",
        note="Trusted: TLC, the YAML renderer, the projection of the built reactor. Documents are edit neighbourhoods (depth <= 3) of hand-written base documents. "
             "Any exception counts as a refusal. Known finding: duplicate names are not refused (6 keys).",
        technique="TLA+ blueprint-document and lattice-map specs + TLC; every TLC document built by armi and compared with the spec's expected reactor; TLC validation of writer outputs",
    ),
    "C13": dict(
        text="SymmetryConversion.tla (EXTENDS the C08 lattice modules for images and symmetry lines) models the core as cell -> [number, original, copy kind, parameter scale] "
             "with the three lookup tables and the changers' memory; Convert / Restore / AddEdges / RemoveEdges and their no-op and refusal branches are actions; "
             "OrbitClosure, CopiesRotatedIntoPlace, UniqueNames, LookupsTruthful, TimesThree (totals as exact rational linear forms over the originals), "
             "RestoreReturnsPrevious, EdgesRoundTrip are invariants checked by TLC over all 255 loading patterns of a 3-ring third core. The emitted graph is walked "
             "through the real ThirdCoreHexToFullCoreChanger / EdgeAssemblyChanger on generated cores (cells, rotation, symmetry factor, masses, parameter scales, all "
             "lookups, totals at rtol 1e-9), and random call histories on 5-ring patterns are validated by TLC. Extra stage geomconv: GeometryConversion.tla "
             "(HexToRZThetaConverter: partition, volume/atom conservation, mesh contiguity) checked by TLC and replayed into the real converter.",
        design="3/C13, 9 and 9.2c",
        note="Trusted: TLC, harness/gen_core.py cores, C08's geometric rotation operators. Interpretation I2: convert and removeEdgeAssemblies purge the 120-degree line for good, "
             "so round trips return the edge-free model (the literal reading is refuted by TLC and reported as a note).",
        technique="TLA+ symmetry-conversion spec (exact rational totals) + TLC; graph walk through the real geometry changers; TLC trace validation of call histories",
    ),
    "C19": dict(
        text="NuclideIds.tla states the identifier encodings (name, label, database name, MCNP, AAAZZZS, MC2-3 pattern) from an independently written periodic table with "
             "injectivity / decoding laws; NuclideDirectory.tla states the statement's clauses as failure-set operators; NuclideFactory.tla is a state machine of the "
             "module-level registration / refusal / relabelling / destruction paths with the clauses as invariants; NuclideTable.tla and MaterialTable.tla validate, with "
             "TLC, the live directory (4 716 rows, nine indices, 120 elements, burn chain) and the material library (58 classes, densities and expansion sampled over every "
             "stated range) exported at every run. Encoder cases and factory edges are replayed on the real constructors.",
        design="3/C19 and 9",
        note="Trusted: TLC, the export of the live tables (quantised to ppb), tolerances 1e-4 (abundances, armi's own) and 1e-5 (mass fractions). The material oracle is status and "
             "sign only. Three known findings (DUMP1/DUMP2 MC2-3 id, Sulfur sum, Uranium pseudoDensity).",
        technique="TLA+ identifier-encoding / directory / factory specs + TLC evaluated over the exported live nuclide and material tables; encoder and factory edges replayed on real code",
    ),
    "C06": dict(
        text="DbHistory.tla models the live state (objects with serials, locations, parameters, time) and two database files as ordered snapshot lists with Assign / Move / "
             "Birth / Advance / Write / WriteRefused / Load / Merge / Split / Close actions; Isolation, Chronological, HistoryCorrect (by identity, default for unset), "
             "HistoryByLocationCorrect, MergeCopiesExactly, SplitCopiesExactly, SuccessMark are invariants / action properties. RunWithDb.tla EXTENDS the C15 Operator spec "
             "with the database and main interfaces, a Fail action at every hook dispatch of a faulting interface and Restart(fromDB); AbortedRunLeavesFile, "
             "CompletedRunIsSuccessful, SnapshotsHoldStateAtWrite, RestartHoldsWholeHistory ... are checked exhaustively over all single failure points of <= 2 cycles. "
             "Edges are replayed on a real Database (five history query families, dumps of closed files), printed runs are executed by a real Operator inside `with o:` "
             "with the file left in the working directory compared with the prediction, and recorded database histories are validated by TLC.",
        design="3/C06 and 9",
        note="Trusted: TLC, the rig from harness/gen_operator.py, h5py dumps. Quick replays a class-stratified sample of edges/runs (thorough ~10x more); failures inside the "
             "database writer are excluded by the statement; MPI paths not modelled.",
        technique="TLA+ database-history spec and run-with-failures spec (extends the operator spec) + TLC fault enumeration; replay on a real Database and real Operator runs; TLC trace validation",
    ),
    "C04": dict(
        text="Layout.tla is the layout algebra of the database: Flatten (the writer: sort order of ArmiObject/Component __lt__ with python's stable sort, complete "
             "indices, per-type indexInData, packed locations incl. multi-index and coordinates, de-duplicated grids), FileObs (what h5py shows), Unflatten / LoadFile "
             "(the loader) and clause-wise equality over 16 named clauses; TLC checks RoundTrip, FileIsSorted, ResaveSame, IndexBijection, GridDedup, AncestorsAreParents ... "
             "over all trees of <= 4 nodes. DbState.tla adds the mutation / write / refused write / load / resave actions (LoadedIsWritten, LoadTwiceEqual, ResaveFixpoint, "
             "SnapshotsFrozen). Every emitted tree is built from real objects, written with Database.writeToDB to HDF5, compared with FileObs, loaded and compared with "
             "LoadFile; real histories on reactors generated from blueprints (hex third/full, hex pin lattices, Cartesian full/quarter, theta-RZ, spent fuel pool) are "
             "recorded (mutate, write, load twice, resave, load) and validated clause by clause by TLC.",
        design="3/C04 and 9",
        note="Trusted: TLC, the reactor generator (harness/gen_reactor.py), SHA-1 digests of canonicalised parameter/query values (reals rounded to 12 significant digits). "
             "Interpretations I1-I5 in the module header (canonical sibling order, materials by class, public geomType). Known findings: attachment of free-coordinate "
             "locators is not recorded in the file; stale block names after a stationary-block exchange.",
        technique="TLA+ database layout algebra + state spec checked by TLC over all small trees; real write/load of every emitted tree; TLC clause-wise validation of recorded write/load histories",
    ),
}

NOT_YET = "no specification-bound check has been built for this property yet in this session (planned, see DESIGN.md section 3)"


def main():
    m = {
        "version": 1,
        "setup_cmd": "./tools/setup.sh",
        "hooks": {
            "guard": "ARMI_VERIF_TRACE",
            "enable": "export ARMI_VERIF_TRACE=1 (no in-source hooks are needed so far; drivers log at the return of public calls)",
            "baseline_off_cmd": "cd /repo && env -u ARMI_VERIF_TRACE /venv/bin/python -m pytest -ra -q -p no:cacheprovider --timeout=900 --continue-on-collection-errors",
            "source_commits": [],
            "add_only": True,
        },
        "engines": [
            {"name": "tlc-harness", "path": "harness/", "serves_properties": sorted(CHECKS),
             "kind_free_text": "TLC runner, state-graph edge replay into real armi objects, batch trace validation"},
        ],
        "checks": [],
        "notes": "Every check: ./check <id> quick|thorough. Exit 0 held / 1 VIOLATION / 2 machinery failure. "
                 "known_findings.json lists fixed and known findings.",
        "not_applicable": [],
    }
    for pid in ALL:
        if pid in CHECKS:
            c = CHECKS[pid]
            m["checks"].append({
                "property_id": pid,
                "quick_cmd": "./check %s quick" % pid,
                "thorough_cmd": "./check %s thorough" % pid,
                "evidence_file": "/verif/evidence/%s.json" % pid,
                "replay_cmd_template": "./check %s --replay {path}" % pid,
                "engine": "tlc-harness",
                "level_claimed": {"category": "model_checking", "text": c["text"], "design_ref": c["design"]},
                "level_note": c["note"],
                "technique": c["technique"],
            })
        else:
            m["not_applicable"].append({"property_id": pid, "reason": NOT_YET})
    with open(os.path.join(HERE, "MANIFEST.json"), "w") as f:
        json.dump(m, f, indent=1)
        f.write("\n")


if __name__ == "__main__":
    main()
