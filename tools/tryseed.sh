#!/bin/sh
# usage: tryseed.sh <PID> <seed-dir> [tier] [--tests]   (seed-dir holds patch.diff and demo.py; worktree /tmp/seed-<pid> must exist and be clean)
PID=$1; SD=$2; TIER=${3:-quick}
WT=/tmp/seed-$(echo $PID | tr A-Z a-z)
[ -d "$WT" ] || git -C /repo worktree add --detach "$WT" HEAD >/dev/null 2>&1
git -C "$WT" checkout -q --detach $(git -C /repo rev-parse HEAD) 2>/dev/null
git -C "$WT" checkout -- . ; git -C "$WT" clean -fdq
echo "== clean demo:"; (cd /var/tmp && PYTHONPATH=$WT /venv/bin/python $SD/demo.py >/dev/null 2>&1; echo "exit $?")
git -C "$WT" apply "$SD/patch.diff" || { echo "PATCH DOES NOT APPLY"; exit 3; }
echo "== patched demo:"; (cd /var/tmp && PYTHONPATH=$WT /venv/bin/python $SD/demo.py >/dev/null 2>&1; echo "exit $?")
if [ "$4" = "--tests" ]; then
  echo "== pinned suite on patched tree:"; (cd $WT && PYTHONPATH=$WT /venv/bin/python /verif/tools/baseline.py -q --repo $WT | tail -3)
fi
echo "== check $PID $TIER on patched tree:"
(cd /verif && VERIF_REPO=$WT ./check $PID $TIER 2>&1 | grep -v "^  what" | tail -6; )
git -C "$WT" checkout -- . ; git -C "$WT" clean -fdq
