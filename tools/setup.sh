#!/bin/sh
# offline setup: verify the tool chain and pre-parse every specification module
set -e
cd "$(dirname "$0")/.."
command -v java >/dev/null
test -f /opt/veriftools/tla/tla2tools.jar
/venv/bin/python -c "import armi, h5py, numpy"
mkdir -p .work evidence
export PYTHONPATH="$(pwd)"
/venv/bin/python -m harness.sanyall
